#!/usr/bin/env python3
"""Evaluate a seeded change against the checks: apply /verif/seeded/<name>/patch.diff to /repo, run the given checks, undo.
usage: tools_seed.py eval <name> [Cnn ...]      (default: the seed's own property)"""
import json, os, subprocess, sys
V = os.path.dirname(os.path.abspath(__file__))
name = sys.argv[2]
d = os.path.join(V, "seeded", name)
meta = json.load(open(os.path.join(d, "meta.json")))
checks = sys.argv[3:] or [meta["property"]]
assert subprocess.run(["git", "-C", "/repo", "status", "--porcelain"], capture_output=True, text=True).stdout.strip() == "", "/repo not clean"
r = subprocess.run(["git", "-C", "/repo", "apply", os.path.join(d, "patch.diff")], capture_output=True, text=True)
if r.returncode != 0:
    print("APPLY FAILED", r.stderr); sys.exit(2)
res = {}
try:
    for c in checks:
        env = dict(os.environ); env["VERIF_EVIDENCE_DIR"] = "/tmp/seed-evidence"; env["VERIF_REPLAY_DIR"] = "/tmp/seed-replay"
        p = subprocess.run(["./check", c, "--tier", "quick"], cwd=V, capture_output=True, text=True, env=env)
        rules = [l.strip()[:260] for l in p.stdout.splitlines() if l.startswith("  rule ")]
        res[c] = {"exit": p.returncode, "reports": rules[:4]}
        print(c, "exit", p.returncode)
        for l in rules[:4]: print("   ", l)
        if p.returncode not in (0, 1): print(p.stdout[-600:])
finally:
    subprocess.run(["git", "-C", "/repo", "checkout", "--", "."])
json.dump(res, open(os.path.join(d, "eval.json"), "w"), indent=1)
