#!/bin/sh
# runs every check's quick (or $1) tier and prints one summary line per check
tier=${1:-quick}
cd "$(dirname "$0")"
rc=0
for c in C01 C02 C03 C04 C05 C06 C07 C08 C09 C10 C11 C12 C13 C14 C15 C16 C17 C18 C19 C20; do
  out=$(./check $c --tier $tier 2>&1); code=$?
  echo "$out" | grep -E "^C[0-9]+:|VIOLATION|ERROR|Inconclusive" | cut -c1-220
  [ $code -ne 0 ] && { echo "  -> $c exit $code"; rc=1; }
done
exit $rc
