//! Fact extractor for the /verif static analyses.
//!
//! Used as RUSTC_WORKSPACE_WRAPPER under `cargo +nightly check`: argv[1] is the real rustc,
//! which is dropped; the remaining arguments are a normal rustc command line. For every
//! workspace crate compiled, one JSON fact file is written to $VERIF_FACTS_DIR (single write):
//! ADTs, trait impls, evaluated consts/statics, MIR bodies with resolved callees, and format
//! sites from the post-expansion AST. Compilation then continues normally so dependants build.
#![feature(rustc_private)]
#![allow(clippy::all)]

extern crate rustc_abi;
extern crate rustc_ast;
extern crate rustc_ast_pretty;
extern crate rustc_data_structures;
extern crate rustc_driver;
extern crate rustc_hir;
extern crate rustc_interface;
extern crate rustc_middle;
extern crate rustc_session;
extern crate rustc_span;

mod astfacts;
mod json;
mod mirfacts;

use json::J;
use rustc_driver::Compilation;
use rustc_interface::interface;
use rustc_middle::ty::TyCtxt;

struct Cb {
    ast: Option<(J, J)>,
}

impl rustc_driver::Callbacks for Cb {
    fn after_expansion<'tcx>(&mut self, _c: &interface::Compiler, tcx: TyCtxt<'tcx>) -> Compilation {
        self.ast = Some(astfacts::collect(tcx));
        Compilation::Continue
    }

    fn after_analysis<'tcx>(&mut self, _c: &interface::Compiler, tcx: TyCtxt<'tcx>) -> Compilation {
        let dir = match std::env::var("VERIF_FACTS_DIR") {
            Ok(d) => d,
            Err(_) => return Compilation::Continue,
        };
        if tcx.dcx().has_errors().is_some() {
            return Compilation::Continue;
        }
        let crate_name = tcx.crate_name(rustc_span::def_id::LOCAL_CRATE).to_string();
        let (format_sites, ast_items) = self.ast.take().unwrap_or((J::Arr(vec![]), J::Arr(vec![])));
        let mut cfgs: Vec<String> = Vec::new();
        for (name, val) in tcx.sess.config.iter() {
            if name.as_str() == "feature" {
                if let Some(v) = val {
                    cfgs.push(v.to_string());
                }
            }
        }
        cfgs.sort();
        let is_test = tcx.sess.opts.test;
        let root = rustc_middle::ty::print::with_no_visible_paths!(rustc_middle::ty::print::with_crate_prefix!(J::Obj(vec![
            ("schema", J::Int(1)),
            ("crate", J::s(crate_name.clone())),
            ("features", J::Arr(cfgs.into_iter().map(J::s).collect())),
            ("test_harness", J::Bool(is_test)),
            ("rustc", J::s(option_env!("CFG_VERSION").unwrap_or("nightly"))),
            ("adts", mirfacts::adts(tcx)),
            ("impls", mirfacts::impls(tcx)),
            ("consts", mirfacts::consts(tcx)),
            ("statics", mirfacts::statics(tcx)),
            ("fns", mirfacts::fns(tcx)),
            ("format_sites", format_sites),
            ("ast_items", ast_items),
        ])));
        let mut out = String::new();
        root.write(&mut out);
        let suffix = if is_test { "-test" } else { "" };
        let path = format!("{}/{}{}.json", dir, crate_name, suffix);
        if let Err(e) = std::fs::write(&path, out) {
            eprintln!("verif-driver: cannot write {}: {}", path, e);
            std::process::exit(101);
        }
        Compilation::Continue
    }
}

fn main() {
    let mut args: Vec<String> = std::env::args().collect();
    // RUSTC_WORKSPACE_WRAPPER: argv = [driver, real-rustc, rustc args...]
    if args.len() > 1 && (args[1].ends_with("rustc") || args[1].contains("/rustc")) {
        args.remove(1);
    }
    let mut cb = Cb { ast: None };
    rustc_driver::run_compiler(&args, &mut cb);
}
