//! ADTs, impls, consts, statics and MIR bodies -> JSON.

use crate::json::J;
use rustc_hir::def::DefKind;
use rustc_hir::def_id::DefId;
use rustc_middle::mir::{
    self, AggregateKind, AssertKind, BasicBlock, BinOp, Body, BorrowKind, CastKind, Const as MirConst,
    ConstValue, Operand, Place, ProjectionElem, Rvalue, StatementKind, TerminatorKind, UnwindAction,
};
use rustc_middle::ty::{self, GenericArgKind, GenericArgsRef, Instance, Ty, TyCtxt, TypingEnv};
use rustc_span::Span;

pub fn ty_json<'tcx>(tcx: TyCtxt<'tcx>, t: Ty<'tcx>) -> J {
    fn args_json<'tcx>(tcx: TyCtxt<'tcx>, args: GenericArgsRef<'tcx>) -> J {
        let mut v = Vec::new();
        for a in args.iter() {
            match a.kind() {
                GenericArgKind::Type(t) => v.push(ty_json(tcx, t)),
                GenericArgKind::Const(c) => v.push(J::Obj(vec![("k", J::s("const")), ("text", J::s(format!("{:?}", c)))])),
                GenericArgKind::Lifetime(_) => {}
            }
        }
        J::Arr(v)
    }
    match t.kind() {
        ty::Bool => J::Obj(vec![("k", J::s("bool"))]),
        ty::Char => J::Obj(vec![("k", J::s("char"))]),
        ty::Int(i) => J::Obj(vec![
            ("k", J::s("int")),
            ("bits", J::Int(i.bit_width().map(|b| b as i128).unwrap_or(64))),
            ("signed", J::Bool(true)),
            ("ptr", J::Bool(i.bit_width().is_none())),
        ]),
        ty::Uint(u) => J::Obj(vec![
            ("k", J::s("int")),
            ("bits", J::Int(u.bit_width().map(|b| b as i128).unwrap_or(64))),
            ("signed", J::Bool(false)),
            ("ptr", J::Bool(u.bit_width().is_none())),
        ]),
        ty::Float(f) => J::Obj(vec![("k", J::s("float")), ("bits", J::Int(f.bit_width() as i128))]),
        ty::Adt(def, args) => J::Obj(vec![
            ("k", J::s("adt")),
            ("path", J::s(tcx.def_path_str(def.did()))),
            ("args", args_json(tcx, args)),
        ]),
        ty::Ref(_, inner, m) => J::Obj(vec![("k", J::s("ref")), ("mut", J::Bool(m.is_mut())), ("to", ty_json(tcx, *inner))]),
        ty::RawPtr(inner, m) => J::Obj(vec![("k", J::s("ptr")), ("mut", J::Bool(m.is_mut())), ("to", ty_json(tcx, *inner))]),
        ty::Array(elem, len) => J::Obj(vec![
            ("k", J::s("array")),
            ("elem", ty_json(tcx, *elem)),
            ("len", match len.try_to_target_usize(tcx) {
                Some(n) => J::Int(n as i128),
                None => J::Null,
            }),
        ]),
        ty::Slice(elem) => J::Obj(vec![("k", J::s("slice")), ("elem", ty_json(tcx, *elem))]),
        ty::Str => J::Obj(vec![("k", J::s("str"))]),
        ty::Never => J::Obj(vec![("k", J::s("never"))]),
        ty::Tuple(elems) => J::Obj(vec![("k", J::s("tuple")), ("elems", J::Arr(elems.iter().map(|e| ty_json(tcx, e)).collect()))]),
        ty::Closure(did, _) => J::Obj(vec![("k", J::s("closure")), ("def", J::s(tcx.def_path_str(*did)))]),
        ty::FnDef(did, args) => J::Obj(vec![
            ("k", J::s("fndef")),
            ("path", J::s(tcx.def_path_str(*did))),
            ("args", args_json(tcx, args)),
        ]),
        ty::Param(p) => J::Obj(vec![("k", J::s("param")), ("name", J::s(p.name.to_string()))]),
        ty::FnPtr(..) => J::Obj(vec![("k", J::s("fnptr")), ("text", J::s(format!("{}", t)))]),
        ty::Dynamic(..) => J::Obj(vec![("k", J::s("dyn")), ("text", J::s(format!("{}", t)))]),
        _ => J::Obj(vec![("k", J::s("other")), ("text", J::s(format!("{}", t)))]),
    }
}

pub fn span_json<'tcx>(tcx: TyCtxt<'tcx>, sp: Span) -> J {
    let sm = tcx.sess.source_map();
    if sp.is_dummy() {
        return J::Null;
    }
    let from_exp = sp.from_expansion();
    let mut v: Vec<(&'static str, J)> = Vec::new();
    let lo = sm.lookup_char_pos(sp.lo());
    let hi = sm.lookup_char_pos(sp.hi());
    let fname = match &lo.file.name {
        rustc_span::FileName::Real(r) => match r.local_path() {
            Some(p) => p.to_string_lossy().to_string(),
            None => format!("{:?}", lo.file.name),
        },
        other => format!("{:?}", other),
    };
    v.push(("file", J::s(fname)));
    v.push(("lo", J::Arr(vec![J::Int(lo.line as i128), J::Int(lo.col.0 as i128 + 1)])));
    v.push(("hi", J::Arr(vec![J::Int(hi.line as i128), J::Int(hi.col.0 as i128 + 1)])));
    v.push(("exp", J::Bool(from_exp)));
    if from_exp {
        let ed = sp.ctxt().outer_expn_data();
        let (kind, name) = match ed.kind {
            rustc_span::ExpnKind::Macro(mk, name) => (format!("{:?}", mk), name.to_string()),
            rustc_span::ExpnKind::Desugaring(d) => ("Desugar".to_string(), format!("{:?}", d)),
            rustc_span::ExpnKind::AstPass(p) => ("AstPass".to_string(), format!("{:?}", p)),
            rustc_span::ExpnKind::Root => ("Root".to_string(), String::new()),
        };
        v.push(("mkind", J::s(kind)));
        v.push(("mname", J::s(name)));
        let local_macro = ed.macro_def_id.map(|d| d.is_local());
        v.push(("mlocal", match local_macro {
            Some(b) => J::Bool(b),
            None => J::Null,
        }));
        // outermost call site (in non-expanded code)
        let cs = sp.source_callsite();
        if !cs.is_dummy() {
            let clo = sm.lookup_char_pos(cs.lo());
            let chi = sm.lookup_char_pos(cs.hi());
            let cf = match &clo.file.name {
                rustc_span::FileName::Real(r) => match r.local_path() {
                    Some(p) => p.to_string_lossy().to_string(),
                    None => format!("{:?}", clo.file.name),
                },
                other => format!("{:?}", other),
            };
            v.push(("cs_file", J::s(cf)));
            v.push(("cs_lo", J::Arr(vec![J::Int(clo.line as i128), J::Int(clo.col.0 as i128 + 1)])));
            v.push(("cs_hi", J::Arr(vec![J::Int(chi.line as i128), J::Int(chi.col.0 as i128 + 1)])));
        }
        // outermost macro name
        let mut cur = sp;
        let mut outer_name = String::new();
        let mut outer_kind = String::new();
        let mut guard = 0;
        while cur.from_expansion() && guard < 64 {
            let d = cur.ctxt().outer_expn_data();
            if let rustc_span::ExpnKind::Macro(mk, name) = d.kind {
                outer_name = name.to_string();
                outer_kind = format!("{:?}", mk);
            }
            cur = d.call_site;
            guard += 1;
        }
        v.push(("outer_mname", J::s(outer_name)));
        v.push(("outer_mkind", J::s(outer_kind)));
    }
    J::Obj(v)
}

fn vis_str<'tcx>(tcx: TyCtxt<'tcx>, did: DefId) -> &'static str {
    match tcx.visibility(did) {
        ty::Visibility::Public => "pub",
        ty::Visibility::Restricted(m) => {
            if m == rustc_hir::def_id::CRATE_DEF_ID.to_def_id() {
                "crate"
            } else {
                "priv"
            }
        }
    }
}

pub fn adts<'tcx>(tcx: TyCtxt<'tcx>) -> J {
    let mut out = Vec::new();
    for ldid in tcx.hir_crate_items(()).definitions() {
        let did = ldid.to_def_id();
        let kind = tcx.def_kind(did);
        let kstr = match kind {
            DefKind::Struct => "struct",
            DefKind::Enum => "enum",
            DefKind::Union => "union",
            _ => continue,
        };
        let def = tcx.adt_def(did);
        let mut variants = Vec::new();
        let discrs: Vec<(rustc_abi::VariantIdx, ty::util::Discr<'tcx>)> =
            if def.is_enum() { def.discriminants(tcx).collect() } else { Vec::new() };
        for (vidx, v) in def.variants().iter_enumerated() {
            let mut fields = Vec::new();
            for f in v.fields.iter() {
                let fty = tcx.type_of(f.did).instantiate_identity().skip_norm_wip();
                fields.push(J::Obj(vec![
                    ("name", J::s(f.name.to_string())),
                    ("ty", ty_json(tcx, fty)),
                    ("vis", J::s(vis_str(tcx, f.did))),
                ]));
            }
            let discr = discrs.iter().find(|(i, _)| *i == vidx).map(|(_, d)| d.val as i128);
            variants.push(J::Obj(vec![
                ("name", J::s(v.name.to_string())),
                ("idx", J::Int(vidx.as_u32() as i128)),
                ("discr", match discr {
                    Some(d) => J::Int(d),
                    None => J::Null,
                }),
                ("ctor", J::s(match v.ctor_kind() {
                    Some(rustc_hir::def::CtorKind::Fn) => "tuple",
                    Some(rustc_hir::def::CtorKind::Const) => "unit",
                    None => "struct",
                })),
                ("fields", J::Arr(fields)),
            ]));
        }
        out.push(J::Obj(vec![
            ("path", J::s(tcx.def_path_str(did))),
            ("kind", J::s(kstr)),
            ("vis", J::s(vis_str(tcx, did))),
            ("span", span_json(tcx, tcx.def_span(did))),
            ("variants", J::Arr(variants)),
        ]));
    }
    J::Arr(out)
}

pub fn impls<'tcx>(tcx: TyCtxt<'tcx>) -> J {
    let mut out = Vec::new();
    for ldid in tcx.hir_crate_items(()).definitions() {
        let did = ldid.to_def_id();
        if let DefKind::Impl { of_trait } = tcx.def_kind(did) {
            let self_ty = tcx.type_of(did).instantiate_identity().skip_norm_wip();
            let trait_path = if of_trait {
                let tr = tcx.impl_trait_ref(did).instantiate_identity().skip_norm_wip();
                Some(tcx.def_path_str_with_args(tr.def_id, tr.args))
            } else {
                None
            };
            let trait_def = if of_trait {
                let tr = tcx.impl_trait_ref(did).instantiate_identity().skip_norm_wip();
                Some(tcx.def_path_str(tr.def_id))
            } else {
                None
            };
            let sp = tcx.def_span(did);
            out.push(J::Obj(vec![
                ("self_ty", ty_json(tcx, self_ty)),
                ("trait", J::opt_s(trait_path)),
                ("trait_def", J::opt_s(trait_def)),
                ("span", span_json(tcx, sp)),
            ]));
        }
    }
    J::Arr(out)
}

fn bytes_of_alloc<'tcx>(tcx: TyCtxt<'tcx>, alloc_id: mir::interpret::AllocId, off: u64, len: usize) -> Option<Vec<u8>> {
    match tcx.global_alloc(alloc_id) {
        mir::interpret::GlobalAlloc::Memory(a) => {
            let inner = a.inner();
            let start = off as usize;
            if start + len > inner.len() {
                return None;
            }
            Some(inner.inspect_with_uninit_and_ptr_outside_interpreter(start..start + len).to_vec())
        }
        _ => None,
    }
}

fn type_size<'tcx>(tcx: TyCtxt<'tcx>, t: Ty<'tcx>) -> Option<u64> {
    let env = TypingEnv::fully_monomorphized();
    tcx.layout_of(env.as_query_input(t)).ok().map(|l| l.size.bytes())
}

/// Typed tree of a constant stored in memory, decoded through the type's layout (little-endian target): integers, floats,
/// tuples, structs, arrays and thin references (followed through the allocation's provenance). Enums and fat pointers -> None.
fn const_tree<'tcx>(tcx: TyCtxt<'tcx>, aid: mir::interpret::AllocId, off: u64, t: Ty<'tcx>, depth: u32) -> Option<J> {
    if depth > 6 {
        return None;
    }
    let env = TypingEnv::fully_monomorphized();
    let layout = tcx.layout_of(env.as_query_input(t)).ok()?;
    let size = layout.size.bytes() as usize;
    match t.kind() {
        ty::Bool | ty::Char | ty::Int(_) | ty::Uint(_) | ty::Float(_) => {
            if size > 16 {
                return None;
            }
            let b = bytes_of_alloc(tcx, aid, off, size)?;
            let mut v: u128 = 0;
            for (i, x) in b.iter().enumerate() {
                v |= (*x as u128) << (8 * i);
            }
            Some(J::Obj(vec![
                ("k", J::s(if t.is_floating_point() { "float" } else { "int" })),
                ("ty", ty_json(tcx, t)),
                ("bits", J::s(format!("{:#x}", v))),
                ("size", J::Int(size as i128)),
            ]))
        }
        ty::Tuple(fields) => {
            let mut out = Vec::new();
            for (i, ft) in fields.iter().enumerate() {
                let fo = layout.fields.offset(i).bytes();
                out.push(const_tree(tcx, aid, off + fo, ft, depth + 1)?);
            }
            Some(J::Obj(vec![("k", J::s("tuple")), ("fields", J::Arr(out))]))
        }
        ty::Array(elem, _) => {
            let n = layout.fields.count();
            if n > 4096 {
                return None;
            }
            let mut out = Vec::new();
            for i in 0..n {
                let fo = layout.fields.offset(i).bytes();
                out.push(const_tree(tcx, aid, off + fo, *elem, depth + 1)?);
            }
            Some(J::Obj(vec![("k", J::s("array")), ("elem", ty_json(tcx, *elem)), ("elems", J::Arr(out))]))
        }
        ty::Adt(def, args) if def.is_struct() => {
            let mut out = Vec::new();
            for (i, fd) in def.non_enum_variant().fields.iter().enumerate() {
                let fo = layout.fields.offset(i).bytes();
                out.push(const_tree(tcx, aid, off + fo, fd.ty(tcx, args), depth + 1)?);
            }
            Some(J::Obj(vec![("k", J::s("struct")), ("path", J::s(tcx.def_path_str(def.did()))), ("fields", J::Arr(out))]))
        }
        ty::Ref(_, inner, _) => {
            if inner.is_str() {
                // fat pointer: (data pointer with provenance, length)
                if let mir::interpret::GlobalAlloc::Memory(a) = tcx.global_alloc(aid) {
                    let p2 = a.inner().provenance().get_ptr(rustc_abi::Size::from_bytes(off))?;
                    let b = bytes_of_alloc(tcx, aid, off, 16)?;
                    let mut po: u64 = 0;
                    let mut ln: u64 = 0;
                    for i in 0..8 {
                        po |= (b[i] as u64) << (8 * i);
                        ln |= (b[8 + i] as u64) << (8 * i);
                    }
                    if ln > 4096 {
                        return None;
                    }
                    let sb = bytes_of_alloc(tcx, p2.alloc_id(), po, ln as usize)?;
                    return Some(J::Obj(vec![("k", J::s("str")), ("s", J::s(String::from_utf8_lossy(&sb).to_string()))]));
                }
                return None;
            }
            if !inner.is_sized(tcx, env) {
                return None;
            }
            if let mir::interpret::GlobalAlloc::Memory(a) = tcx.global_alloc(aid) {
                let p2 = a.inner().provenance().get_ptr(rustc_abi::Size::from_bytes(off))?;
                let b = bytes_of_alloc(tcx, aid, off, 8)?;
                let mut po: u64 = 0;
                for (i, x) in b.iter().enumerate() {
                    po |= (*x as u64) << (8 * i);
                }
                let sub = const_tree(tcx, p2.alloc_id(), po, *inner, depth + 1)?;
                return Some(J::Obj(vec![("k", J::s("ref")), ("to", sub)]));
            }
            None
        }
        _ => None,
    }
}

fn const_value_json<'tcx>(tcx: TyCtxt<'tcx>, cv: ConstValue, t: Ty<'tcx>) -> J {
    match cv {
        ConstValue::Scalar(mir::interpret::Scalar::Int(si)) => {
            let size = si.size();
            let bits = si.to_bits(size);
            J::Obj(vec![("kind", J::s("scalar")), ("bits", J::s(format!("{:#x}", bits))), ("size", J::Int(size.bytes() as i128))])
        }
        ConstValue::Scalar(mir::interpret::Scalar::Ptr(ptr, _)) => {
            // reference to memory: follow for &[T;N] / &T
            let (prov, off) = ptr.into_raw_parts();
            let aid = prov.alloc_id();
            if let ty::Ref(_, inner, _) = t.kind() {
                // reference to a reference: follow the inner pointer through the allocation's provenance map
                if let ty::Ref(_, inner2, _) = inner.kind() {
                    if let mir::interpret::GlobalAlloc::Memory(a) = tcx.global_alloc(aid) {
                        if let Some(p2) = a.inner().provenance().get_ptr(off) {
                            let aid2 = p2.alloc_id();
                            if let Some(sz) = type_size(tcx, *inner2) {
                                if let Some(b) = bytes_of_alloc(tcx, aid2, 0, sz as usize) {
                                    return J::Obj(vec![
                                        ("kind", J::s("ref_ref_bytes")),
                                        ("bytes", J::Arr(b.into_iter().map(|x| J::Int(x as i128)).collect())),
                                    ]);
                                }
                            }
                        }
                    }
                }
                if let Some(sz) = type_size(tcx, *inner) {
                    if let Some(b) = bytes_of_alloc(tcx, aid, off.bytes(), sz as usize) {
                        let tree = const_tree(tcx, aid, off.bytes(), *inner, 0).unwrap_or(J::Null);
                        return J::Obj(vec![
                            ("kind", J::s("ref_bytes")),
                            ("bytes", J::Arr(b.into_iter().map(|x| J::Int(x as i128)).collect())),
                            ("tree", tree),
                        ]);
                    }
                }
            }
            J::Obj(vec![("kind", J::s("ptr"))])
        }
        ConstValue::ZeroSized => J::Obj(vec![("kind", J::s("zst"))]),
        ConstValue::Slice { alloc_id, meta } => {
            let b = bytes_of_alloc(tcx, alloc_id, 0, meta as usize);
            match b {
                Some(b) => {
                    let is_str = matches!(t.kind(), ty::Ref(_, i, _) if i.is_str());
                    if is_str {
                        J::Obj(vec![("kind", J::s("str")), ("str", J::s(String::from_utf8_lossy(&b).to_string()))])
                    } else {
                        J::Obj(vec![
                            ("kind", J::s("slice_bytes")),
                            ("bytes", J::Arr(b.into_iter().map(|x| J::Int(x as i128)).collect())),
                        ])
                    }
                }
                None => J::Obj(vec![("kind", J::s("slice"))]),
            }
        }
        ConstValue::Indirect { alloc_id, offset } => {
            let tree = const_tree(tcx, alloc_id, offset.bytes(), t, 0).unwrap_or(J::Null);
            if let Some(sz) = type_size(tcx, t) {
                if let Some(b) = bytes_of_alloc(tcx, alloc_id, offset.bytes(), sz as usize) {
                    return J::Obj(vec![
                        ("kind", J::s("bytes")),
                        ("bytes", J::Arr(b.into_iter().map(|x| J::Int(x as i128)).collect())),
                        ("tree", tree),
                    ]);
                }
            }
            J::Obj(vec![("kind", J::s("indirect")), ("tree", tree)])
        }
    }
}

pub fn consts<'tcx>(tcx: TyCtxt<'tcx>) -> J {
    let mut out = Vec::new();
    for ldid in tcx.hir_crate_items(()).definitions() {
        let did = ldid.to_def_id();
        let kind = tcx.def_kind(did);
        let is_const = matches!(kind, DefKind::Const { .. } | DefKind::AssocConst { .. });
        if !is_const {
            continue;
        }
        // only non-generic consts
        if tcx.generics_of(did).own_requires_monomorphization() || tcx.generics_of(did).parent_count > 0 {
            let g = tcx.generics_of(did);
            if g.count() > 0 {
                continue;
            }
        }
        let t = tcx.type_of(did).instantiate_identity().skip_norm_wip();
        let sp = tcx.def_span(did);
        let val = match tcx.const_eval_poly(did) {
            Ok(cv) => const_value_json(tcx, cv, t),
            Err(_) => J::Null,
        };
        out.push(J::Obj(vec![
            ("path", J::s(tcx.def_path_str(did))),
            ("ty", ty_json(tcx, t)),
            ("value", val),
            ("span", span_json(tcx, sp)),
        ]));
    }
    J::Arr(out)
}

pub fn statics<'tcx>(tcx: TyCtxt<'tcx>) -> J {
    let mut out = Vec::new();
    for ldid in tcx.hir_crate_items(()).definitions() {
        let did = ldid.to_def_id();
        if let DefKind::Static { mutability, nested, .. } = tcx.def_kind(did) {
            if nested {
                continue;
            }
            let t = tcx.type_of(did).instantiate_identity().skip_norm_wip();
            let sp = tcx.def_span(did);
            let freeze = t.is_freeze(tcx, TypingEnv::fully_monomorphized());
            let tl = tcx.is_thread_local_static(did);
            out.push(J::Obj(vec![
                ("path", J::s(tcx.def_path_str(did))),
                ("ty", ty_json(tcx, t)),
                ("mutable", J::Bool(mutability.is_mut())),
                ("interior_mut", J::Bool(!freeze)),
                ("thread_local", J::Bool(tl)),
                ("span", span_json(tcx, sp)),
            ]));
        }
    }
    J::Arr(out)
}

struct BodyCx<'a, 'tcx> {
    tcx: TyCtxt<'tcx>,
    body: &'a Body<'tcx>,
    def_id: DefId,
    env: TypingEnv<'tcx>,
}

impl<'a, 'tcx> BodyCx<'a, 'tcx> {
    fn place(&self, p: &Place<'tcx>) -> J {
        let tcx = self.tcx;
        let mut proj = Vec::new();
        for (base, elem) in p.iter_projections() {
            let bty = base.ty(self.body, tcx);
            match elem {
                ProjectionElem::Deref => proj.push(J::Obj(vec![("deref", J::Bool(true))])),
                ProjectionElem::Field(f, fty) => {
                    let mut name: Option<String> = None;
                    if let ty::Adt(def, _) = bty.ty.kind() {
                        let vidx = bty.variant_index.unwrap_or(rustc_abi::FIRST_VARIANT);
                        if def.is_enum() || def.is_struct() || def.is_union() {
                            if (vidx.as_usize()) < def.variants().len() {
                                let v = def.variant(vidx);
                                if f.as_usize() < v.fields.len() {
                                    name = Some(v.fields[f].name.to_string());
                                }
                            }
                        }
                    }
                    proj.push(J::Obj(vec![
                        ("field", J::Int(f.as_u32() as i128)),
                        ("name", J::opt_s(name)),
                        ("ty", ty_json(tcx, fty)),
                    ]));
                }
                ProjectionElem::Downcast(name, vidx) => proj.push(J::Obj(vec![
                    ("downcast", J::Int(vidx.as_u32() as i128)),
                    ("variant", J::opt_s(name.map(|s| s.to_string()))),
                ])),
                ProjectionElem::Index(l) => proj.push(J::Obj(vec![("index_local", J::Int(l.as_u32() as i128))])),
                ProjectionElem::ConstantIndex { offset, min_length, from_end } => proj.push(J::Obj(vec![
                    ("const_index", J::Int(offset as i128)),
                    ("min_length", J::Int(min_length as i128)),
                    ("from_end", J::Bool(from_end)),
                ])),
                ProjectionElem::Subslice { from, to, from_end } => proj.push(J::Obj(vec![
                    ("subslice", J::Arr(vec![J::Int(from as i128), J::Int(to as i128)])),
                    ("from_end", J::Bool(from_end)),
                ])),
                other => proj.push(J::Obj(vec![("other", J::s(format!("{:?}", other)))])),
            }
        }
        J::Obj(vec![("local", J::Int(p.local.as_u32() as i128)), ("proj", J::Arr(proj))])
    }

    fn constant(&self, c: &mir::ConstOperand<'tcx>) -> J {
        let tcx = self.tcx;
        let t = c.const_.ty();
        let mut v: Vec<(&'static str, J)> = vec![("ty", ty_json(tcx, t))];
        if let ty::FnDef(did, args) = t.kind() {
            v.push(("fn", self.callee(*did, args)));
            return J::Obj(vec![("const", J::Obj(v))]);
        }
        let mut done = false;
        if t.is_integral() || t.is_bool() || t.is_char() || t.is_floating_point() {
            if let Some(si) = c.const_.try_eval_scalar_int(tcx, self.env) {
                let size = si.size();
                let bits = si.to_bits(size);
                if t.is_signed() {
                    let sv = size.sign_extend(bits);
                    v.push(("int", J::Int(sv as i128)));
                } else if t.is_floating_point() {
                    v.push(("fbits", J::s(format!("{:#x}", bits))));
                    let ft = if size.bytes() == 4 { format!("{:?}", f32::from_bits(bits as u32)) } else { format!("{:?}", f64::from_bits(bits as u64)) };
                    v.push(("ftext", J::s(ft)));
                } else {
                    v.push(("int", J::Int(bits as i128)));
                }
                done = true;
            }
        }
        if !done {
            match c.const_.eval(tcx, self.env, c.span) {
                Ok(cv) => {
                    v.push(("val", const_value_json(tcx, cv, t)));
                }
                Err(_) => {}
            }
        }
        match c.const_ {
            MirConst::Unevaluated(uv, _) => {
                v.push(("uneval", J::s(tcx.def_path_str(uv.def))));
                if let Some(p) = uv.promoted {
                    v.push(("promoted", J::Int(p.as_u32() as i128)));
                }
            }
            _ => {}
        }
        v.push(("text", J::s(format!("{}", c.const_))));
        J::Obj(vec![("const", J::Obj(v))])
    }

    fn operand(&self, o: &Operand<'tcx>) -> J {
        match o {
            Operand::Copy(p) => J::Obj(vec![("copy", self.place(p))]),
            Operand::Move(p) => J::Obj(vec![("move", self.place(p))]),
            Operand::Constant(c) => self.constant(c),
            other => J::Obj(vec![("other", J::s(format!("{:?}", other)))]),
        }
    }

    fn callee(&self, did: DefId, args: GenericArgsRef<'tcx>) -> J {
        let tcx = self.tcx;
        let path = tcx.def_path_str(did);
        let full = tcx.def_path_str_with_args(did, args);
        let mut targs = Vec::new();
        let mut closure_defs = Vec::new();
        for a in args.iter() {
            if let GenericArgKind::Type(t) = a.kind() {
                targs.push(ty_json(tcx, t));
                if let ty::Closure(cd, _) = t.kind() {
                    closure_defs.push(J::s(tcx.def_path_str(*cd)));
                }
            }
        }
        let mut resolved: Option<String> = None;
        let mut resolved_full: Option<String> = None;
        let mut resolved_local = false;
        let mut resolved_kind = String::new();
        if let Ok(Some(inst)) = Instance::try_resolve(tcx, self.env, did, args) {
            let rdid = inst.def_id();
            resolved = Some(tcx.def_path_str(rdid));
            resolved_full = Some(tcx.def_path_str_with_args(rdid, inst.args));
            resolved_local = rdid.is_local();
            resolved_kind = format!("{:?}", inst.def).split('(').next().unwrap_or("").to_string();
        }
        // trait info for the *declared* callee
        let mut trait_path: Option<String> = None;
        let mut self_ty: Option<J> = None;
        if let Some(tr) = tcx.trait_of_assoc(did) {
            trait_path = Some(tcx.def_path_str(tr));
            if let Some(a0) = args.get(0) {
                if let GenericArgKind::Type(t) = a0.kind() {
                    self_ty = Some(ty_json(tcx, t));
                }
            }
        } else if let Some(imp) = tcx.inherent_impl_of_assoc(did) {
            let st = tcx.type_of(imp).instantiate_identity().skip_norm_wip();
            self_ty = Some(ty_json(tcx, st));
        }
        J::Obj(vec![
            ("path", J::s(path)),
            ("full", J::s(full)),
            ("local", J::Bool(did.is_local())),
            ("targs", J::Arr(targs)),
            ("closure_defs", J::Arr(closure_defs)),
            ("trait", J::opt_s(trait_path)),
            ("self_ty", self_ty.unwrap_or(J::Null)),
            ("resolved", J::opt_s(resolved)),
            ("resolved_full", J::opt_s(resolved_full)),
            ("resolved_local", J::Bool(resolved_local)),
            ("resolved_kind", J::s(resolved_kind)),
        ])
    }

    fn rvalue(&self, rv: &Rvalue<'tcx>) -> J {
        let tcx = self.tcx;
        match rv {
            Rvalue::Use(o, _) => J::Obj(vec![("use", self.operand(o))]),
            Rvalue::Repeat(o, n) => J::Obj(vec![(
                "repeat",
                J::Arr(vec![self.operand(o), match n.try_to_target_usize(tcx) {
                    Some(n) => J::Int(n as i128),
                    None => J::Null,
                }]),
            )]),
            Rvalue::Ref(_, bk, p) => J::Obj(vec![(
                "ref",
                J::Obj(vec![("mut", J::Bool(matches!(bk, BorrowKind::Mut { .. }))), ("place", self.place(p))]),
            )]),
            Rvalue::RawPtr(k, p) => J::Obj(vec![(
                "addr_of",
                J::Obj(vec![("kind", J::s(format!("{:?}", k))), ("place", self.place(p))]),
            )]),
            Rvalue::Cast(k, o, t) => {
                let ks = match k {
                    CastKind::IntToInt => "IntToInt".to_string(),
                    CastKind::FloatToInt => "FloatToInt".to_string(),
                    CastKind::FloatToFloat => "FloatToFloat".to_string(),
                    CastKind::IntToFloat => "IntToFloat".to_string(),
                    CastKind::PtrToPtr => "PtrToPtr".to_string(),
                    CastKind::Transmute => "Transmute".to_string(),
                    CastKind::PointerCoercion(pc, _) => format!("PointerCoercion({:?})", pc),
                    other => format!("{:?}", other),
                };
                J::Obj(vec![("cast", J::Arr(vec![J::s(ks), self.operand(o), ty_json(tcx, *t)]))])
            }
            Rvalue::BinaryOp(op, ab) => {
                let (a, b) = &**ab;
                let (name, ovf) = match op {
                    BinOp::AddWithOverflow => ("Add", true),
                    BinOp::SubWithOverflow => ("Sub", true),
                    BinOp::MulWithOverflow => ("Mul", true),
                    other => (
                        match other {
                            BinOp::Add => "Add",
                            BinOp::AddUnchecked => "Add",
                            BinOp::Sub => "Sub",
                            BinOp::SubUnchecked => "Sub",
                            BinOp::Mul => "Mul",
                            BinOp::MulUnchecked => "Mul",
                            BinOp::Div => "Div",
                            BinOp::Rem => "Rem",
                            BinOp::BitXor => "BitXor",
                            BinOp::BitAnd => "BitAnd",
                            BinOp::BitOr => "BitOr",
                            BinOp::Shl => "Shl",
                            BinOp::ShlUnchecked => "Shl",
                            BinOp::Shr => "Shr",
                            BinOp::ShrUnchecked => "Shr",
                            BinOp::Eq => "Eq",
                            BinOp::Lt => "Lt",
                            BinOp::Le => "Le",
                            BinOp::Ne => "Ne",
                            BinOp::Ge => "Ge",
                            BinOp::Gt => "Gt",
                            BinOp::Cmp => "Cmp",
                            BinOp::Offset => "Offset",
                            _ => "Other",
                        },
                        false,
                    ),
                };
                let key = if ovf { "bin_ovf" } else { "bin" };
                J::Obj(vec![(key, J::Arr(vec![J::s(name), self.operand(a), self.operand(b)]))])
            }
            Rvalue::UnaryOp(op, o) => J::Obj(vec![("un", J::Arr(vec![J::s(format!("{:?}", op)), self.operand(o)]))]),
            Rvalue::Discriminant(p) => J::Obj(vec![("discr", self.place(p))]),
            Rvalue::Aggregate(kind, fields) => {
                let mut v: Vec<(&'static str, J)> = Vec::new();
                match &**kind {
                    AggregateKind::Array(t) => {
                        v.push(("kind", J::s("array")));
                        v.push(("elem", ty_json(tcx, *t)));
                    }
                    AggregateKind::Tuple => v.push(("kind", J::s("tuple"))),
                    AggregateKind::Adt(did, vidx, _args, _, active) => {
                        v.push(("kind", J::s("adt")));
                        v.push(("adt", J::s(tcx.def_path_str(*did))));
                        v.push(("variant", J::Int(vidx.as_u32() as i128)));
                        let def = tcx.adt_def(*did);
                        v.push(("variant_name", J::s(def.variant(*vidx).name.to_string())));
                        let names: Vec<J> = def.variant(*vidx).fields.iter().map(|f| J::s(f.name.to_string())).collect();
                        v.push(("field_names", J::Arr(names)));
                        if let Some(a) = active {
                            v.push(("union_field", J::Int(a.as_u32() as i128)));
                        }
                    }
                    AggregateKind::Closure(did, _) => {
                        v.push(("kind", J::s("closure")));
                        v.push(("def", J::s(tcx.def_path_str(*did))));
                    }
                    AggregateKind::RawPtr(..) => v.push(("kind", J::s("rawptr"))),
                    other => {
                        v.push(("kind", J::s("other")));
                        v.push(("text", J::s(format!("{:?}", other))));
                    }
                }
                v.push(("fields", J::Arr(fields.iter().map(|o| self.operand(o)).collect())));
                J::Obj(vec![("aggregate", J::Obj(v))])
            }
            Rvalue::CopyForDeref(p) => J::Obj(vec![("copy_for_deref", self.place(p))]),
            Rvalue::ThreadLocalRef(d) => J::Obj(vec![("thread_local_ref", J::s(tcx.def_path_str(*d)))]),
            other => J::Obj(vec![("other", J::s(format!("{:?}", other)))]),
        }
    }

    fn bb(&self, b: BasicBlock) -> J {
        J::Int(b.as_u32() as i128)
    }

    fn unwind(&self, u: &UnwindAction) -> J {
        match u {
            UnwindAction::Cleanup(b) => self.bb(*b),
            _ => J::Null,
        }
    }

    fn terminator(&self, t: &mir::Terminator<'tcx>) -> J {
        let tcx = self.tcx;
        let sp = span_json(tcx, t.source_info.span);
        match &t.kind {
            TerminatorKind::Goto { target } => J::Obj(vec![("goto", self.bb(*target))]),
            TerminatorKind::SwitchInt { discr, targets } => {
                let mut ts = Vec::new();
                for (v, b) in targets.iter() {
                    ts.push(J::Arr(vec![J::Int(v as i128), self.bb(b)]));
                }
                let dty = discr.ty(self.body, tcx);
                J::Obj(vec![(
                    "switch",
                    J::Obj(vec![
                        ("discr", self.operand(discr)),
                        ("ty", ty_json(tcx, dty)),
                        ("targets", J::Arr(ts)),
                        ("otherwise", self.bb(targets.otherwise())),
                        ("span", sp),
                    ]),
                )])
            }
            TerminatorKind::Return => J::Obj(vec![("return", J::Bool(true))]),
            TerminatorKind::Unreachable => J::Obj(vec![("unreachable", J::Bool(true))]),
            TerminatorKind::UnwindResume => J::Obj(vec![("resume", J::Bool(true))]),
            TerminatorKind::UnwindTerminate(_) => J::Obj(vec![("abort", J::Bool(true))]),
            TerminatorKind::Drop { place, target, unwind, .. } => J::Obj(vec![(
                "drop",
                J::Obj(vec![("place", self.place(place)), ("target", self.bb(*target)), ("unwind", self.unwind(unwind))]),
            )]),
            TerminatorKind::Call { func, args, destination, target, unwind, fn_span, .. } => {
                let callee = match func {
                    Operand::Constant(c) => match c.const_.ty().kind() {
                        ty::FnDef(did, gargs) => self.callee(*did, gargs),
                        _ => J::Obj(vec![("indirect", self.operand(func))]),
                    },
                    _ => J::Obj(vec![("indirect", self.operand(func))]),
                };
                J::Obj(vec![(
                    "call",
                    J::Obj(vec![
                        ("callee", callee),
                        ("args", J::Arr(args.iter().map(|a| self.operand(&a.node)).collect())),
                        ("dest", self.place(destination)),
                        ("target", match target {
                            Some(b) => self.bb(*b),
                            None => J::Null,
                        }),
                        ("unwind", self.unwind(unwind)),
                        ("span", sp),
                        ("fn_span", span_json(tcx, *fn_span)),
                    ]),
                )])
            }
            TerminatorKind::Assert { cond, expected, msg, target, unwind } => {
                let (kind, detail): (&str, J) = match &**msg {
                    AssertKind::BoundsCheck { len, index } => {
                        ("BoundsCheck", J::Obj(vec![("len", self.operand(len)), ("index", self.operand(index))]))
                    }
                    AssertKind::Overflow(op, a, b) => (
                        "Overflow",
                        J::Obj(vec![("op", J::s(format!("{:?}", op))), ("a", self.operand(a)), ("b", self.operand(b))]),
                    ),
                    AssertKind::OverflowNeg(a) => ("OverflowNeg", J::Obj(vec![("a", self.operand(a))])),
                    AssertKind::DivisionByZero(a) => ("DivisionByZero", J::Obj(vec![("a", self.operand(a))])),
                    AssertKind::RemainderByZero(a) => ("RemainderByZero", J::Obj(vec![("a", self.operand(a))])),
                    AssertKind::MisalignedPointerDereference { .. } => ("MisalignedPointerDereference", J::Null),
                    AssertKind::NullPointerDereference => ("NullPointerDereference", J::Null),
                    AssertKind::InvalidEnumConstruction(_) => ("InvalidEnumConstruction", J::Null),
                    _ => ("Other", J::Null),
                };
                J::Obj(vec![(
                    "assert",
                    J::Obj(vec![
                        ("cond", self.operand(cond)),
                        ("expected", J::Bool(*expected)),
                        ("kind", J::s(kind)),
                        ("detail", detail),
                        ("target", self.bb(*target)),
                        ("unwind", self.unwind(unwind)),
                        ("span", sp),
                    ]),
                )])
            }
            other => J::Obj(vec![("other", J::s(format!("{:?}", other)))]),
        }
    }

    fn body_json(&self) -> (J, J) {
        let tcx = self.tcx;
        let body = self.body;
        let mut names: Vec<Option<String>> = vec![None; body.local_decls.len()];
        for vdi in body.var_debug_info.iter() {
            if let mir::VarDebugInfoContents::Place(p) = &vdi.value {
                if p.projection.is_empty() {
                    names[p.local.as_usize()] = Some(vdi.name.to_string());
                }
            }
        }
        let mut locals = Vec::new();
        for (l, d) in body.local_decls.iter_enumerated() {
            locals.push(J::Obj(vec![
                ("ty", ty_json(tcx, d.ty)),
                ("name", J::opt_s(names[l.as_usize()].clone())),
                ("mutable", J::Bool(d.mutability.is_mut())),
            ]));
        }
        let mut blocks = Vec::new();
        for (_bb, data) in body.basic_blocks.iter_enumerated() {
            let mut stmts = Vec::new();
            for s in data.statements.iter() {
                match &s.kind {
                    StatementKind::Assign(b) => {
                        let (p, rv) = &**b;
                        stmts.push(J::Obj(vec![
                            ("assign", J::Arr(vec![self.place(p), self.rvalue(rv)])),
                            ("span", span_json(tcx, s.source_info.span)),
                        ]));
                    }
                    StatementKind::SetDiscriminant { place, variant_index } => {
                        stmts.push(J::Obj(vec![(
                            "set_discr",
                            J::Arr(vec![self.place(place), J::Int(variant_index.as_u32() as i128)]),
                        )]));
                    }
                    StatementKind::StorageLive(_)
                    | StatementKind::StorageDead(_)
                    | StatementKind::Nop
                    | StatementKind::FakeRead(..)
                    | StatementKind::PlaceMention(..)
                    | StatementKind::AscribeUserType(..)
                    | StatementKind::Coverage(..)
                    | StatementKind::ConstEvalCounter
                    | StatementKind::BackwardIncompatibleDropHint { .. } => {}
                    StatementKind::Intrinsic(i) => {
                        stmts.push(J::Obj(vec![("intrinsic", J::s(format!("{:?}", i)))]));
                    }
                }
            }
            let term = match &data.terminator {
                Some(t) => self.terminator(t),
                None => J::Null,
            };
            blocks.push(J::Obj(vec![("stmts", J::Arr(stmts)), ("term", term), ("cleanup", J::Bool(data.is_cleanup))]));
        }
        let _ = self.def_id;
        (J::Arr(locals), J::Arr(blocks))
    }
}

pub fn fns<'tcx>(tcx: TyCtxt<'tcx>) -> J {
    let mut out = Vec::new();
    for ldid in tcx.mir_keys(()).iter() {
        let did = ldid.to_def_id();
        let kind = tcx.def_kind(did);
        let kstr = match kind {
            DefKind::Fn => "fn",
            DefKind::AssocFn => "assoc",
            DefKind::Closure => "closure",
            _ => continue,
        };
        if tcx.is_constructor(did) {
            continue;
        }
        let body = tcx.optimized_mir(did);
        let env = TypingEnv::post_analysis(tcx, did);
        let cx = BodyCx { tcx, body, def_id: did, env };
        let (locals, blocks) = cx.body_json();
        let parent = if kind == DefKind::Closure {
            Some(tcx.def_path_str(tcx.typeck_root_def_id(did)))
        } else {
            None
        };
        let mut impl_info = J::Null;
        if kind == DefKind::AssocFn {
            let p = tcx.parent(did);
            if let DefKind::Impl { of_trait } = tcx.def_kind(p) {
                let st = tcx.type_of(p).instantiate_identity().skip_norm_wip();
                let (tp, td) = if of_trait {
                    let tr = tcx.impl_trait_ref(p).instantiate_identity().skip_norm_wip();
                    (Some(tcx.def_path_str_with_args(tr.def_id, tr.args)), Some(tcx.def_path_str(tr.def_id)))
                } else {
                    (None, None)
                };
                impl_info = J::Obj(vec![("self_ty", ty_json(tcx, st)), ("trait", J::opt_s(tp)), ("trait_def", J::opt_s(td))]);
            }
        }
        let vis = if matches!(kind, DefKind::Fn | DefKind::AssocFn) { vis_str(tcx, did) } else { "priv" };
        let name = tcx.opt_item_name(did).map(|s| s.to_string());
        // promoted constants of this body (evaluated by the analysis when a constant's bytes cannot be decoded directly)
        let mut promoted = Vec::new();
        for pbody in tcx.promoted_mir(did).iter() {
            let pcx = BodyCx { tcx, body: pbody, def_id: did, env };
            let (pl, pb) = pcx.body_json();
            promoted.push(J::Obj(vec![("locals", pl), ("blocks", pb)]));
        }
        out.push(J::Obj(vec![
            ("path", J::s(tcx.def_path_str(did))),
            ("name", J::opt_s(name)),
            ("kind", J::s(kstr)),
            ("parent", J::opt_s(parent)),
            ("impl", impl_info),
            ("vis", J::s(vis)),
            ("span", span_json(tcx, tcx.def_span(did))),
            ("body_span", span_json(tcx, body.span)),
            ("arg_count", J::Int(body.arg_count as i128)),
            ("locals", locals),
            ("blocks", blocks),
            ("promoted", J::Arr(promoted)),
        ]));
    }
    J::Arr(out)
}
