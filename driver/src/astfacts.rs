//! Facts from the post-expansion AST: format sites (with syntactic context) and item attributes.

use crate::json::J;
use crate::mirfacts::span_json;
use rustc_ast as ast;
use rustc_ast::visit::{self, AssocCtxt, Visitor};
use rustc_ast::{FormatArgsPiece, FormatTrait};
use rustc_ast_pretty::pprust;
use rustc_middle::ty::TyCtxt;

struct Coll<'tcx> {
    tcx: TyCtxt<'tcx>,
    item_stack: Vec<String>,
    ctx_stack: Vec<J>,
    sites: Vec<J>,
    items: Vec<J>,
}

fn clone_j(j: &J) -> J {
    match j {
        J::Null => J::Null,
        J::Bool(b) => J::Bool(*b),
        J::Int(i) => J::Int(*i),
        J::Str(s) => J::Str(s.clone()),
        J::Arr(v) => J::Arr(v.iter().map(clone_j).collect()),
        J::Obj(v) => J::Obj(v.iter().map(|(k, x)| (*k, clone_j(x))).collect()),
    }
}

fn attrs_json(attrs: &[ast::Attribute]) -> J {
    let mut v = Vec::new();
    for a in attrs {
        if a.is_doc_comment() {
            continue;
        }
        v.push(J::s(pprust::attribute_to_string(a)));
    }
    J::Arr(v)
}

impl<'tcx> Coll<'tcx> {
    fn record_format(&mut self, fa: &ast::FormatArgs, macro_span: rustc_span::Span) {
        let mut pieces = Vec::new();
        for p in fa.template.iter() {
            match p {
                FormatArgsPiece::Literal(s) => pieces.push(J::s(s.to_string())),
                FormatArgsPiece::Placeholder(ph) => {
                    let idx = match ph.argument.index {
                        Ok(i) => i as i128,
                        Err(_) => -1,
                    };
                    let tr = match ph.format_trait {
                        FormatTrait::Display => "Display",
                        FormatTrait::Debug => "Debug",
                        FormatTrait::LowerExp => "LowerExp",
                        FormatTrait::UpperExp => "UpperExp",
                        FormatTrait::Octal => "Octal",
                        FormatTrait::Pointer => "Pointer",
                        FormatTrait::Binary => "Binary",
                        FormatTrait::LowerHex => "LowerHex",
                        FormatTrait::UpperHex => "UpperHex",
                    };
                    let o = &ph.format_options;
                    let width = match &o.width {
                        Some(ast::FormatCount::Literal(n)) => J::Int(*n as i128),
                        Some(_) => J::s("arg"),
                        None => J::Null,
                    };
                    let prec = match &o.precision {
                        Some(ast::FormatCount::Literal(n)) => J::Int(*n as i128),
                        Some(_) => J::s("arg"),
                        None => J::Null,
                    };
                    let count_arg = |c: &Option<ast::FormatCount>| match c {
                        Some(ast::FormatCount::Argument(p)) => match p.index {
                            Ok(i) => J::Int(i as i128),
                            Err(_) => J::Int(-1),
                        },
                        _ => J::Null,
                    };
                    let width_arg = count_arg(&o.width);
                    let prec_arg = count_arg(&o.precision);
                    pieces.push(J::Obj(vec![
                        ("arg", J::Int(idx)),
                        ("width_arg", width_arg),
                        ("precision_arg", prec_arg),
                        ("trait", J::s(tr)),
                        ("width", width),
                        ("precision", prec),
                        ("fill", match o.fill {
                            Some(c) => J::s(c.to_string()),
                            None => J::Null,
                        }),
                        ("zero_pad", J::Bool(o.zero_pad)),
                        ("alternate", J::Bool(o.alternate)),
                        ("debug_hex", match o.debug_hex {
                            Some(ast::FormatDebugHex::Lower) => J::s("lower"),
                            Some(ast::FormatDebugHex::Upper) => J::s("upper"),
                            None => J::Null,
                        }),
                        ("sign", match o.sign {
                            Some(ast::FormatSign::Plus) => J::s("+"),
                            Some(ast::FormatSign::Minus) => J::s("-"),
                            None => J::Null,
                        }),
                    ]));
                }
            }
        }
        let mut args = Vec::new();
        for a in fa.arguments.all_args() {
            args.push(J::Obj(vec![
                ("expr", J::s(pprust::expr_to_string(&a.expr))),
                ("span", span_json(self.tcx, a.expr.span)),
            ]));
        }
        self.sites.push(J::Obj(vec![
            ("item", J::Arr(self.item_stack.iter().map(|s| J::s(s.clone())).collect())),
            ("span", span_json(self.tcx, fa.span)),
            ("expr_span", span_json(self.tcx, macro_span)),
            ("pieces", J::Arr(pieces)),
            ("args", J::Arr(args)),
            ("context", J::Arr(self.ctx_stack.iter().map(clone_j).collect())),
        ]));
    }
}

impl<'ast, 'tcx> Visitor<'ast> for Coll<'tcx> {
    fn visit_item(&mut self, item: &'ast ast::Item) {
        let label = match &item.kind {
            ast::ItemKind::Impl(imp) => {
                let st = pprust::ty_to_string(&imp.self_ty);
                match &imp.of_trait {
                    Some(tr) => format!("impl {} for {}", pprust::path_to_string(&tr.trait_ref.path), st),
                    None => format!("impl {}", st),
                }
            }
            k => match k.ident() {
                Some(id) => id.name.to_string(),
                None => String::from("_"),
            },
        };
        match &item.kind {
            ast::ItemKind::Struct(_, _, vd) | ast::ItemKind::Union(_, _, vd) => {
                let mut fields = Vec::new();
                for f in vd.fields() {
                    fields.push(J::Obj(vec![
                        ("name", J::opt_s(f.ident.map(|i| i.name.to_string()))),
                        ("attrs", attrs_json(&f.attrs)),
                        ("ty", J::s(pprust::ty_to_string(&f.ty))),
                    ]));
                }
                self.items.push(J::Obj(vec![
                    ("kind", J::s("struct")),
                    ("name", J::s(label.clone())),
                    ("path", J::Arr(self.item_stack.iter().map(|s| J::s(s.clone())).collect())),
                    ("attrs", attrs_json(&item.attrs)),
                    ("fields", J::Arr(fields)),
                    ("span", span_json(self.tcx, item.span)),
                ]));
            }
            ast::ItemKind::Enum(_, _, ed) => {
                let mut variants = Vec::new();
                for v in ed.variants.iter() {
                    let mut fields = Vec::new();
                    for f in v.data.fields() {
                        fields.push(J::Obj(vec![
                            ("name", J::opt_s(f.ident.map(|i| i.name.to_string()))),
                            ("attrs", attrs_json(&f.attrs)),
                            ("ty", J::s(pprust::ty_to_string(&f.ty))),
                        ]));
                    }
                    variants.push(J::Obj(vec![
                        ("name", J::s(v.ident.name.to_string())),
                        ("attrs", attrs_json(&v.attrs)),
                        ("fields", J::Arr(fields)),
                    ]));
                }
                self.items.push(J::Obj(vec![
                    ("kind", J::s("enum")),
                    ("name", J::s(label.clone())),
                    ("path", J::Arr(self.item_stack.iter().map(|s| J::s(s.clone())).collect())),
                    ("attrs", attrs_json(&item.attrs)),
                    ("variants", J::Arr(variants)),
                    ("span", span_json(self.tcx, item.span)),
                ]));
            }
            ast::ItemKind::Static(..) | ast::ItemKind::Const(..) | ast::ItemKind::Fn(..) => {
                self.items.push(J::Obj(vec![
                    ("kind", J::s(match &item.kind {
                        ast::ItemKind::Static(..) => "static",
                        ast::ItemKind::Const(..) => "const",
                        _ => "fn",
                    })),
                    ("name", J::s(label.clone())),
                    ("path", J::Arr(self.item_stack.iter().map(|s| J::s(s.clone())).collect())),
                    ("attrs", attrs_json(&item.attrs)),
                    ("span", span_json(self.tcx, item.span)),
                ]));
            }
            _ => {}
        }
        self.item_stack.push(label);
        let saved = std::mem::take(&mut self.ctx_stack);
        visit::walk_item(self, item);
        self.ctx_stack = saved;
        self.item_stack.pop();
    }

    fn visit_assoc_item(&mut self, item: &'ast ast::AssocItem, ctxt: AssocCtxt) {
        let label = match item.kind.ident() {
            Some(id) => id.name.to_string(),
            None => String::from("_"),
        };
        self.item_stack.push(label);
        let saved = std::mem::take(&mut self.ctx_stack);
        visit::walk_assoc_item(self, item, ctxt);
        self.ctx_stack = saved;
        self.item_stack.pop();
    }

    fn visit_expr(&mut self, e: &'ast ast::Expr) {
        match &e.kind {
            ast::ExprKind::FormatArgs(fa) => {
                self.record_format(fa, e.span);
                visit::walk_expr(self, e);
            }
            ast::ExprKind::Match(scrut, arms, _) => {
                self.visit_expr(scrut);
                let s = pprust::expr_to_string(scrut);
                for (i, arm) in arms.iter().enumerate() {
                    self.ctx_stack.push(J::Obj(vec![
                        ("match", J::s(s.clone())),
                        ("arm", J::s(pprust::pat_to_string(&arm.pat))),
                        ("arm_index", J::Int(i as i128)),
                        ("guard", match &arm.guard {
                            Some(g) => J::s(pprust::expr_to_string(&g.cond)),
                            None => J::Null,
                        }),
                        ("span", span_json(self.tcx, e.span)),
                    ]));
                    self.visit_arm(arm);
                    self.ctx_stack.pop();
                }
            }
            ast::ExprKind::If(cond, then, els) => {
                self.visit_expr(cond);
                let c = pprust::expr_to_string(cond);
                self.ctx_stack.push(J::Obj(vec![
                    ("if", J::s(c.clone())),
                    ("branch", J::s("then")),
                    ("span", span_json(self.tcx, e.span)),
                ]));
                self.visit_block(then);
                self.ctx_stack.pop();
                if let Some(els) = els {
                    self.ctx_stack.push(J::Obj(vec![
                        ("if", J::s(c)),
                        ("branch", J::s("else")),
                        ("span", span_json(self.tcx, e.span)),
                    ]));
                    self.visit_expr(els);
                    self.ctx_stack.pop();
                }
            }
            ast::ExprKind::Closure(_) => {
                self.ctx_stack.push(J::Obj(vec![("closure", J::Bool(true)), ("span", span_json(self.tcx, e.span))]));
                visit::walk_expr(self, e);
                self.ctx_stack.pop();
            }
            ast::ExprKind::ForLoop { .. } | ast::ExprKind::While(..) | ast::ExprKind::Loop(..) => {
                self.ctx_stack.push(J::Obj(vec![("loop", J::Bool(true)), ("span", span_json(self.tcx, e.span))]));
                visit::walk_expr(self, e);
                self.ctx_stack.pop();
            }
            _ => visit::walk_expr(self, e),
        }
    }
}

pub fn collect<'tcx>(tcx: TyCtxt<'tcx>) -> (J, J) {
    let guard = tcx.resolver_for_lowering().borrow();
    let krate: &ast::Crate = &guard.1;
    let mut c = Coll { tcx, item_stack: Vec::new(), ctx_stack: Vec::new(), sites: Vec::new(), items: Vec::new() };
    visit::walk_crate(&mut c, krate);
    (J::Arr(c.sites), J::Arr(c.items))
}
