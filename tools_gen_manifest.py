#!/usr/bin/env python3
"""Generates MANIFEST.json from analysis/claims.py (single source of truth for claims)."""
import json, os, sys
sys.path.insert(0, os.path.dirname(os.path.abspath(__file__)))
from analysis import claims

props = [json.loads(l) for l in open(os.path.join(os.path.dirname(os.path.abspath(__file__)), "properties.jsonl"))]
ids = [p["id"] for p in props]
checks = []
na = []
for pid in ids:
    c = claims.CLAIMS.get(pid)
    if c is None or c.get("not_applicable"):
        na.append({"property_id": pid, "reason": (c or {}).get("not_applicable", "check not built yet (static-analysis rules for this property are still under construction)")})
        continue
    checks.append({
        "property_id": pid,
        "quick_cmd": "./check %s --tier quick" % pid,
        "thorough_cmd": "./check %s --tier thorough" % pid,
        "evidence_file": "/verif/evidence/%s.json" % pid,
        "replay_cmd_template": "./check %s --replay {path}" % pid,
        "engine": c["engine"],
        "level_claimed": {"category": "other", "text": c["text"], "design_ref": c["design_ref"]},
        "level_note": c["note"],
        "technique": c["technique"],
    })
m = {
    "version": 1,
    "setup_cmd": "./setup.sh",
    "hooks": {
        "guard": "--cfg rsadsb_adsb_deku_verif",
        "enable": "none needed: static analysis reads MIR/AST facts of the unmodified build (no hooks or instrumentation in /repo)",
        "baseline_off_cmd": "cd /repo && cargo test --workspace --no-fail-fast --offline",
        "source_commits": [],
        "add_only": True,
    },
    "engines": claims.ENGINES,
    "checks": checks,
    "not_applicable": na,
    "notes": claims.NOTES,
}
json.dump(m, open(os.path.join(os.path.dirname(os.path.abspath(__file__)), "MANIFEST.json"), "w"), indent=1)
print("checks:", [c["property_id"] for c in checks], "n/a:", [n["property_id"] for n in na])
