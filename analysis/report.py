"""Violations, known findings, evidence files and exit codes."""
import json
import os
import re
import time

VERIF = os.path.dirname(os.path.dirname(os.path.abspath(__file__)))
KNOWN_PATH = os.path.join(VERIF, "known_findings.json")


def _safe(key):
    return re.sub(r"[^A-Za-z0-9_.=,+-]+", "_", key)[:180]


class Report:
    def __init__(self, pid, tier, seed=0):
        self.pid = pid
        self.tier = tier
        self.seed = seed
        self.t0 = time.time()
        self.violations = []     # dict(key, rule, msg, site, detail)
        self.infos = []
        self.rules = {}          # rule id -> dict(desc, instances, nontrivial set, samples)
        self.assumptions = []
        self.extra = {}
        self.floors = []         # (name, expected_min, found)
        self.exhaustive = True

    # --- rule bookkeeping -------------------------------------------------
    def rule(self, rid, desc):
        self.rules.setdefault(rid, {"desc": desc, "instances": 0, "nontrivial": set(), "samples": []})
        return rid

    def instance(self, rid, what, nontrivial=True, sample=None):
        r = self.rules[rid]
        r["instances"] += 1
        if nontrivial:
            r["nontrivial"].add(what)
        if sample is not None and len(r["samples"]) < 4:
            r["samples"].append(sample)

    def floor(self, name, expected_min, found):
        if getattr(self, "no_floors", False):
            return
        self.floors.append((name, expected_min, found))
        if found < expected_min:
            self.violation("FLOOR", "floor:%s" % name,
                           "rule matched %d instance(s), fewer than the %d confirmed by hand: the rule would pass vacuously (anchor moved or renamed?)" % (found, expected_min),
                           site=None)

    def violation(self, rule, key, msg, site=None, detail=None):
        full = "%s:%s:%s" % (self.pid, rule, key)
        for v in self.violations:
            if v["key"] == full:
                return
        self.violations.append({"key": full, "rule": rule, "msg": msg, "site": site, "detail": detail})

    def info(self, msg):
        self.infos.append(msg)

    def assume(self, text):
        if text not in self.assumptions:
            self.assumptions.append(text)

    # --- finish -----------------------------------------------------------
    def finish(self, explanation, level="other"):
        known = {}
        if os.path.exists(KNOWN_PATH):
            with open(KNOWN_PATH) as fh:
                kf = json.load(fh)
            for e in kf.get("known", []):
                if e["property"] == self.pid:
                    known[e["key"]] = e
        printed_known = []
        real = []
        for v in self.violations:
            if v["key"] in known:
                printed_known.append(v)
            else:
                real.append(v)
        for v in printed_known:
            print("KNOWN-FINDING: property=%s %s -- %s" % (self.pid, v["key"], known[v["key"]].get("what", v["msg"])))
        stale = [k for k in known if k not in {v["key"] for v in self.violations}]
        for k in stale:
            print("NOTE: known finding no longer reproduced: %s" % k)
        rdir = os.path.join(os.environ.get("VERIF_REPLAY_DIR") or os.path.join(VERIF, "replay"), self.pid)
        os.makedirs(rdir, exist_ok=True)
        for v in real:
            path = os.path.join(rdir, _safe(v["key"]) + ".json")
            with open(path, "w") as fh:
                json.dump(v, fh, indent=1, default=str)
            site = (" at %s" % v["site"]) if v["site"] else ""
            print("  rule %s%s [%s]: %s" % (v["rule"], site, v["key"], v["msg"]))
            print("VIOLATION property=%s replay=%s" % (self.pid, path))
        evaluations = sum(r["instances"] for r in self.rules.values())
        distinct = set()
        for rid, r in self.rules.items():
            for w in r["nontrivial"]:
                distinct.add((rid, w))
        samples = []
        for rid, r in self.rules.items():
            for s in r["samples"][:2]:
                samples.append({"rule": rid, "case": s})
        cov = {
            "explanation": explanation,
            "evaluations": evaluations,
            "distinct_nontrivial": len(distinct),
            "rule": "each evaluation is one rule instance (a grammar path, table entry, panic obligation, call site, "
                    "format site or CFG path query) decided on the MIR/AST facts extracted from /repo's working tree; "
                    "an instance is non-trivial when the rule had content to compare (not a constant-folded or vacuous case); "
                    "distinct = distinct (rule, construct) pairs",
            "samples": samples[:12] or [{"note": "no instances"}],
            "exhaustive": self.exhaustive,
            "rules": {rid: {"desc": r["desc"], "instances": r["instances"], "distinct_nontrivial": len(r["nontrivial"])}
                      for rid, r in self.rules.items()},
            "floors": [{"name": n, "expected_min": e, "found": f} for n, e, f in self.floors],
            "known_findings_printed": [v["key"] for v in printed_known],
            "violations_new": [v["key"] for v in real],
            "infos": self.infos[:60],
        }
        cov.update(self.extra)
        ev = {
            "property_id": self.pid,
            "tier": self.tier,
            "seed": self.seed,
            "level": level,
            "coverage": cov,
            "assumptions": self.assumptions,
            "wall_s": round(time.time() - self.t0, 3),
            "violations": len(real),
        }
        edir = os.environ.get("VERIF_EVIDENCE_DIR") or os.path.join(VERIF, "evidence")
        os.makedirs(edir, exist_ok=True)
        with open(os.path.join(edir, self.pid + ".json"), "w") as fh:
            json.dump(ev, fh, indent=1, default=str)
        print("%s: %d rule instance(s), %d new violation(s), %d known finding(s), %.1fs" % (
            self.pid, evaluations, len(real), len(printed_known), time.time() - self.t0))
        return 1 if real else 0
