"""Fact extraction (driver run under cargo) and loading.

Facts are cached under /verif/.cache/facts/<tree-hash>/<config>/ where the hash covers /repo's
working-tree sources and the driver binary; any edit under /repo forces re-extraction.  A missing
or stale fact file aborts the check (exit 2) - it is never read as "no violations".
"""
import fcntl
import hashlib
import json
import os
import re
import shutil
import subprocess
import sys
import time

VERIF = os.path.dirname(os.path.dirname(os.path.abspath(__file__)))
REPO = os.environ.get("VERIF_REPO", "/repo")
CACHE = os.environ.get("VERIF_CACHE_DIR") or os.path.join(VERIF, ".cache")
DRIVER_DIR = os.path.join(VERIF, "driver")
DRIVER_BIN = os.path.join(DRIVER_DIR, "target", "release", "verif-driver")

WORKSPACE_PKGS = ["adsb_deku", "rsadsb_common", "rsadsb_apps"]

CONFIGS = {
    # name: (cargo args, expected fact files)
    "std": (["--workspace"], ["adsb_deku", "rsadsb_common", "radar", "1090"]),
    "alloc": (["-p", "adsb_deku", "-p", "rsadsb_common", "--no-default-features", "--features",
               "adsb_deku/alloc,rsadsb_common/alloc"], ["adsb_deku", "rsadsb_common"]),
    "serde": (["-p", "adsb_deku", "-p", "rsadsb_common", "--features",
               "adsb_deku/serde,rsadsb_common/serde"], ["adsb_deku", "rsadsb_common"]),
}


class FactsError(Exception):
    pass


def _env():
    env = dict(os.environ)
    env["CARGO_NET_OFFLINE"] = "true"
    return env


def nightly_sysroot():
    out = subprocess.run(["rustc", "+nightly", "--print", "sysroot"], capture_output=True, text=True,
                         env=_env())
    if out.returncode != 0:
        raise FactsError("nightly toolchain not available: " + out.stderr)
    return out.stdout.strip()


def driver_sources_mtime():
    m = 0
    for root, _, files in os.walk(os.path.join(DRIVER_DIR, "src")):
        for f in files:
            m = max(m, os.path.getmtime(os.path.join(root, f)))
    m = max(m, os.path.getmtime(os.path.join(DRIVER_DIR, "Cargo.toml")))
    return m


def build_driver(force=False):
    if not force and os.path.exists(DRIVER_BIN) and os.path.getmtime(DRIVER_BIN) >= driver_sources_mtime():
        return
    r = subprocess.run(["cargo", "build", "--release", "--offline"], cwd=DRIVER_DIR, env=_env(),
                       capture_output=True, text=True)
    if r.returncode != 0 or not os.path.exists(DRIVER_BIN):
        raise FactsError("driver build failed:\n" + r.stdout[-2000:] + r.stderr[-4000:])


def repo_tree_hash(repo=None):
    repo = repo or REPO
    h = hashlib.sha256()
    entries = []
    for root, dirs, files in os.walk(repo):
        dirs[:] = sorted(d for d in dirs if d not in ("target", ".git", "node_modules"))
        for f in sorted(files):
            if f.endswith(".rs") or f in ("Cargo.toml", "Cargo.lock", "README.md") or f.endswith(".toml"):
                entries.append(os.path.join(root, f))
    for p in entries:
        h.update(os.path.relpath(p, repo).encode())
        h.update(b"\0")
        with open(p, "rb") as fh:
            h.update(fh.read())
        h.update(b"\0")
    # the driver is part of the cache key
    for root, _, files in os.walk(os.path.join(DRIVER_DIR, "src")):
        for f in sorted(files):
            with open(os.path.join(root, f), "rb") as fh:
                h.update(fh.read())
    return h.hexdigest()[:24]


def _facts_dir(tree_hash, config):
    return os.path.join(CACHE, "facts", tree_hash, config)


def _clean_fingerprints(target_dir):
    for prof in ("debug",):
        fp = os.path.join(target_dir, prof, ".fingerprint")
        if not os.path.isdir(fp):
            continue
        for d in os.listdir(fp):
            if any(d.startswith(p + "-") for p in WORKSPACE_PKGS):
                shutil.rmtree(os.path.join(fp, d), ignore_errors=True)


def extract(config, repo=None, tree_hash=None, target_dir=None, quiet=True):
    """Run the driver for one configuration; returns the facts dir. Idempotent per tree hash."""
    repo = repo or REPO
    tree_hash = tree_hash or repo_tree_hash(repo)
    out_dir = _facts_dir(tree_hash, config)
    cargo_args, expected = CONFIGS[config]
    stamp = os.path.join(out_dir, "COMPLETE")
    os.makedirs(CACHE, exist_ok=True)
    lock_path = os.path.join(CACHE, "extract-%s.lock" % config)
    with open(lock_path, "w") as lock:
        fcntl.flock(lock, fcntl.LOCK_EX)
        if os.path.exists(stamp) and all(os.path.exists(os.path.join(out_dir, e + ".json")) for e in expected):
            return out_dir
        build_driver()
        if os.path.isdir(out_dir):
            shutil.rmtree(out_dir)
        os.makedirs(out_dir)
        target_dir = target_dir or os.path.join(CACHE, "target-" + config)
        _clean_fingerprints(target_dir)
        env = _env()
        env["LD_LIBRARY_PATH"] = os.path.join(nightly_sysroot(), "lib") + ":" + env.get("LD_LIBRARY_PATH", "")
        env["RUSTFLAGS"] = "-Zmir-opt-level=0 -Awarnings"
        env["RUSTC_WORKSPACE_WRAPPER"] = DRIVER_BIN
        env["VERIF_FACTS_DIR"] = out_dir
        env["CARGO_TARGET_DIR"] = target_dir
        env.pop("RUSTC_WRAPPER", None)
        t0 = time.time()
        r = subprocess.run(["cargo", "+nightly", "check", "--offline"] + cargo_args, cwd=repo, env=env,
                           capture_output=True, text=True)
        if r.returncode != 0:
            raise FactsError("extraction (%s) failed: cargo check exit %d\n%s" % (config, r.returncode, r.stderr[-6000:]))
        missing = [e for e in expected if not os.path.exists(os.path.join(out_dir, e + ".json"))]
        if missing:
            raise FactsError("extraction (%s) produced no fact file for %s (driver skipped?)" % (config, missing))
        with open(stamp, "w") as fh:
            fh.write(json.dumps({"tree_hash": tree_hash, "config": config, "wall_s": time.time() - t0}))
        _gc_old_facts(tree_hash)
    return out_dir


def _gc_old_facts(keep_hash, keep_n=6):
    base = os.path.join(CACHE, "facts")
    if not os.path.isdir(base):
        return
    ds = [(os.path.getmtime(os.path.join(base, d)), d) for d in os.listdir(base)]
    ds.sort(reverse=True)
    for _, d in ds[keep_n:]:
        if d != keep_hash:
            shutil.rmtree(os.path.join(base, d), ignore_errors=True)


_CRATE_RE = re.compile(r"\bcrate::")


def _qualify(obj, crate):
    """Replace the `crate::` prefix in every path string by the crate's name."""
    rep = crate + "::"
    if isinstance(obj, str):
        if "crate::" in obj:
            return _CRATE_RE.sub(rep, obj)
        return obj
    if isinstance(obj, list):
        return [_qualify(x, crate) for x in obj]
    if isinstance(obj, dict):
        return {k: (v if k in ("text", "str", "expr", "if", "match", "arm", "guard", "file", "cs_file") else _qualify(v, crate))
                for k, v in obj.items()}
    return obj


class Crate:
    def __init__(self, data, config):
        self.config = config
        self.name = data["crate"]
        self.features = data["features"]
        data = _qualify(data, self.name)
        self.adts = {a["path"]: a for a in data["adts"]}
        self.impls = data["impls"]
        self.consts = {c["path"]: c for c in data["consts"]}
        self.statics = {s["path"]: s for s in data["statics"]}
        self.fns = {}
        for f in data["fns"]:
            f["crate"] = self.name
            self.fns[f["path"]] = f
        self.format_sites = data["format_sites"]
        self.ast_items = data["ast_items"]


class Program:
    """All crates of one configuration."""

    def __init__(self, config, crates, tree_hash):
        self.config = config
        self.tree_hash = tree_hash
        self.crates = {c.name: c for c in crates}
        self.fns = {}
        self.adts = {}
        self.consts = {}
        for c in crates:
            self.fns.update(c.fns)
            self.adts.update(c.adts)
            self.consts.update(c.consts)

    def fn(self, path):
        return self.fns.get(path)

    def find_fns(self, pred):
        return [f for f in self.fns.values() if pred(f)]


_LOADED = {}


def load(config="std", repo=None):
    repo = repo or REPO
    th = repo_tree_hash(repo)
    key = (config, th)
    if key in _LOADED:
        return _LOADED[key]
    d = extract(config, repo=repo, tree_hash=th)
    crates = []
    for name in CONFIGS[config][1]:
        p = os.path.join(d, name + ".json")
        if not os.path.exists(p):
            raise FactsError("fact file missing: " + p)
        with open(p) as fh:
            data = json.load(fh)
        if data.get("schema") != 1:
            raise FactsError("fact schema mismatch in " + p)
        crates.append(Crate(data, config))
    prog = Program(config, crates, th)
    _LOADED[key] = prog
    return prog
