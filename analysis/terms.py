"""Polynomial normal forms over opaque atoms for float formulas (see DESIGN 2.2).

A normal form is a frozenset of (monomial, coefficient) where monomial is a sorted tuple of (atom, power) and the
coefficient an exact Fraction (decimal literals are rationals).  Atoms: ('sym', name) inputs, ('int', key) integer
sub-expressions, ('call', name, nf_args...) non-polynomial operators, ('inv', nf) reciprocal of a non-constant,
('phi', nf...) unordered join of alternatives.  Equality of normal forms ignores commutativity, associativity,
distribution, helper extraction and statement order; it distinguishes constants, operators, arguments and their order."""
from fractions import Fraction

from .ai.values import IntVal

ONE = ()


def const(c):
    c = Fraction(c)
    return {ONE: c} if c != 0 else {}


def atom(a):
    return {((a, 1),): Fraction(1)}


def add(p, q, sign=1):
    r = dict(p)
    for m, c in q.items():
        v = r.get(m, 0) + sign * c
        if v == 0:
            r.pop(m, None)
        else:
            r[m] = v
    return r


def mul_mono(a, b):
    d = {}
    for x, e in a + b:
        d[x] = d.get(x, 0) + e
    return tuple(sorted(((x, e) for x, e in d.items() if e != 0), key=repr))


def mul(p, q):
    r = {}
    for m1, c1 in p.items():
        for m2, c2 in q.items():
            m = mul_mono(m1, m2)
            v = r.get(m, 0) + c1 * c2
            if v == 0:
                r.pop(m, None)
            else:
                r[m] = v
    return r


def is_const(p):
    return all(m == ONE for m in p)


def const_value(p):
    return p.get(ONE, Fraction(0))


def freeze(p):
    return tuple(sorted(((m, c) for m, c in p.items()), key=repr))


def normalize(t, int_atoms=None):
    """term (as built by the interpreter / reference builders) -> polynomial dict"""
    if t is None:
        return None
    k = t[0]
    if k == "const":
        try:
            return const(Fraction(str(t[1])))
        except (ValueError, ZeroDivisionError):
            return atom(("const?", str(t[1])))
    if k == "sym":
        return atom(("sym", t[1]))
    if k == "int":
        v = t[1]
        if isinstance(v, IntVal):
            if v.is_const():
                return const(v.lo)
            key = None
            for tag in v.tags:
                if isinstance(tag, tuple) and tag and tag[0] == "name":
                    key = tag[1]
            if key is None:
                key = repr(v.lin) if v.lin is not None else repr(("bits", v.bits)) if v.bits is not None else repr(("opaque", sorted(v.deps), sorted(map(repr, v.tags))))
            return atom(("int", key))
        return atom(("int", repr(v)))
    if k == "fcast":
        return normalize(t[2])
    if k == "Neg":
        a = normalize(t[1])
        return None if a is None else mul(const(-1), a)
    if k in ("Add", "Sub"):
        a, b = normalize(t[1]), normalize(t[2])
        if a is None or b is None:
            return None
        return add(a, b, 1 if k == "Add" else -1)
    if k == "Mul":
        a, b = normalize(t[1]), normalize(t[2])
        if a is None or b is None:
            return None
        return mul(a, b)
    if k == "Div":
        a, b = normalize(t[1]), normalize(t[2])
        if a is None or b is None:
            return None
        if is_const(b) and const_value(b) != 0:
            return mul(a, const(1 / const_value(b)))
        return mul(a, atom(("inv", freeze(b))))
    if k == "Rem":
        a, b = normalize(t[1]), normalize(t[2])
        if a is None or b is None:
            return None
        return atom(("call", "rem", freeze(a), freeze(b)))
    if k == "call":
        name = t[1]
        args = [normalize(x) for x in t[2:]]
        if any(a is None for a in args):
            return None
        if name in ("powf", "pow", "powi") and len(args) == 2 and is_const(args[1]):
            e = const_value(args[1])
            if e.denominator == 1 and 0 <= e <= 4:
                r = const(1)
                for _ in range(int(e)):
                    r = mul(r, args[0])
                return r
        if name == "to_radians" and len(args) == 1:
            return mul(args[0], const(Fraction("3.141592653589793") / 180))
        if name == "to_degrees" and len(args) == 1:
            return mul(args[0], const(180 / Fraction("3.141592653589793")))
        return atom(("call", name) + tuple(freeze(a) for a in args))
    if k == "phi":
        args = [normalize(x) for x in t[1:]]
        if any(a is None for a in args):
            return None
        return atom(("phi",) + tuple(sorted((freeze(a) for a in args), key=repr)))
    if k == "sel":
        # guarded select: ('sel', cond_repr, then, else)
        a, b = normalize(t[2]), normalize(t[3])
        if a is None or b is None:
            return None
        return atom(("sel", t[1], freeze(a), freeze(b)))
    return atom(("?", repr(t)))


def nf(t):
    p = normalize(t)
    return None if p is None else freeze(p)


def show(p, limit=300):
    if p is None:
        return "?"
    parts = []
    for m, c in p:
        s = str(c)
        for a, e in m:
            s += "*" + _show_atom(a) + ("^%d" % e if e != 1 else "")
        parts.append(s)
    return (" + ".join(parts))[:limit]


def _show_atom(a):
    if a[0] == "sym":
        return a[1]
    if a[0] == "call":
        return "%s(%s)" % (a[1], ", ".join(show(x, 80) for x in a[2:]))
    if a[0] == "inv":
        return "1/(%s)" % show(a[1], 80)
    if a[0] == "int":
        return "int[%s]" % str(a[1])[:40]
    return str(a)[:60]


# reference term builders ---------------------------------------------------------------------
def C(x):
    return ("const", str(x))


def S(n):
    return ("sym", n)


def call(name, *args):
    return ("call", name) + tuple(args)


def A(a, b):
    return ("Add", a, b)


def Sb(a, b):
    return ("Sub", a, b)


def M(a, b):
    return ("Mul", a, b)


def D(a, b):
    return ("Div", a, b)
