"""Path-sensitive abstract interpreter over extracted MIR.

Exploration is per function call: `run_call` explores all paths of the callee (workspace callees are
inlined recursively), then merges the outcomes whose visible state is identical into one continuation
whose return value is a lazy `Choice`.  Two-way branches on a single GF(2)-affine bit are merged at the
branch's immediate post-dominator (mux join) when both arms reach it with one state each.
"""
import os
import sys
import time

from ..cfg import cfg_of
from .pathcond import PathCond
from .values import (BOOL, U8, USIZE, AdtVal, ArrayVal, Choice, FloatVal, IntTy, IntVal, Lin, Opaque, RefVal, Top,
                     TupleVal, UNIT, ZERO, ONE, bx_xor, deps_of, fp, mask_atoms, ty_of_json, ty_str)

sys.setrecursionlimit(20000)


class Inconclusive(Exception):
    pass


class NeedSplit(Exception):
    def __init__(self, loc):
        self.loc = loc


class Frame:
    __slots__ = ("fn", "locals", "block", "dest", "target", "on_return", "id", "visits", "tag", "si")

    def __init__(self, fn, fid):
        self.fn = fn
        self.locals = [None] * len(fn["locals"])
        self.block = 0
        self.dest = None
        self.target = None
        self.on_return = None
        self.id = fid
        self.visits = {}
        self.tag = None
        self.si = 0

    def copy(self):
        f = Frame.__new__(Frame)
        f.fn = self.fn
        f.locals = list(self.locals)
        f.block = self.block
        f.dest = self.dest
        f.target = self.target
        f.on_return = self.on_return
        f.id = self.id
        f.visits = dict(self.visits)
        f.tag = self.tag
        f.si = self.si
        return f


class State:
    __slots__ = ("frames", "pc", "heap", "events", "next_id", "retval", "status", "oblig", "atoms_next", "stop", "nd")

    def __init__(self):
        self.frames = []
        self.pc = PathCond()
        self.heap = {}
        self.events = []
        self.next_id = 1
        self.retval = None
        self.status = "run"   # run | returned | diverged | panicked
        self.oblig = []
        self.atoms_next = 4096
        self.stop = None
        self.nd = 0     # number of forks on this path so far (a fork = the continuation was not determined by the state alone)

    def copy(self):
        s = State.__new__(State)
        s.frames = [f.copy() for f in self.frames]
        s.pc = self.pc.copy()
        s.heap = dict(self.heap)
        s.events = list(self.events)
        s.next_id = self.next_id
        s.retval = self.retval
        s.status = self.status
        s.oblig = list(self.oblig)
        s.atoms_next = self.atoms_next
        s.stop = self.stop
        s.nd = self.nd
        return s

    def frame(self, fid):
        for f in reversed(self.frames):
            if f.id == fid:
                return f
        raise KeyError(fid)

    def top(self):
        return self.frames[-1]

    def new_heap(self, v):
        i = self.next_id
        self.next_id += 1
        self.heap[i] = v
        return ("H", i, ())

    def fresh_atoms(self, n):
        a = self.atoms_next
        self.atoms_next += n
        return list(range(a, a + n))

    def live_fp(self, block):
        """fingerprint of what can still influence execution when the top frame enters `block`: the frames below, the top frame's
        locals that are live there, and the heap cells reachable from them"""
        from ..cfg import live_in
        top = self.frames[-1]
        live = live_in(top.fn)[block] if block < len(top.fn["blocks"]) else None
        fr = tuple((f.id, f.block, tuple(fp(v) for v in f.locals)) for f in self.frames[:-1])
        tl = tuple(fp(v) if (live is None or j in live) else None for j, v in enumerate(top.locals))
        # heap cells are named by allocation order, which differs between two visits that are otherwise alike: rename them in
        # the order in which they are reached
        canon = {}
        order = []

        def cf(x):
            if isinstance(x, tuple):
                if len(x) >= 2 and x[0] == "H" and isinstance(x[1], int) and not isinstance(x[1], bool):
                    c = canon.get(x[1])
                    if c is None:
                        c = len(canon)
                        canon[x[1]] = c
                        order.append(x[1])
                    return ("H", c) + tuple(cf(y) for y in x[2:])
                return tuple(cf(y) for y in x)
            return x
        roots = cf((fr, (top.id, block, tl)))
        hp = []
        i = 0
        while i < len(order):
            hp.append(cf(fp(self.heap.get(order[i]))))
            i += 1
        return (roots, tuple(hp))

    def visible_fp(self, depth):
        """fingerprint of everything below frame index `depth` plus the heap cells reachable from there"""
        fr = tuple((f.id, f.block, tuple(fp(v) for v in f.locals)) for f in self.frames[:depth])
        live = set()
        todo = []
        for f in self.frames[:depth]:
            for v in f.locals:
                if v is not None:
                    heap_refs(v, todo)
        while todo:
            k = todo.pop()
            if k in live:
                continue
            live.add(k)
            v = self.heap.get(k)
            if v is not None:
                heap_refs(v, todo)
        hp = tuple((k, fp(self.heap.get(k))) for k in sorted(live))
        return (fr, hp)


def heap_refs(v, out):
    """append ids of heap cells referenced by value v"""
    if isinstance(v, RefVal):
        if v.loc[0] == "H":
            out.append(v.loc[1])
        if v.meta is not None:
            heap_refs(v.meta, out)
    elif isinstance(v, (AdtVal, TupleVal)):
        for f in v.fields:
            if f is not None:
                heap_refs(f, out)
    elif isinstance(v, ArrayVal):
        if v.elems:
            for e in v.elems:
                if e is not None and not isinstance(e, IntVal):
                    heap_refs(e, out)
        if v.summary is not None:
            heap_refs(v.summary, out)
    elif isinstance(v, Choice):
        for _d, x in v.alts:
            heap_refs(x, out)
    elif isinstance(v, Opaque):
        for _k, x in v.data:
            if isinstance(x, (RefVal, AdtVal, TupleVal, ArrayVal, Choice, Opaque)):
                heap_refs(x, out)
            elif isinstance(x, tuple):
                for y in x:
                    if isinstance(y, (RefVal, AdtVal, TupleVal, ArrayVal, Choice, Opaque)):
                        heap_refs(y, out)
                    elif isinstance(y, tuple):
                        for z in y:
                            if isinstance(z, (RefVal, AdtVal, TupleVal, ArrayVal, Choice, Opaque)):
                                heap_refs(z, out)


def map_heap_refs(v, f):
    """rebuild value with heap ids mapped through f(id)->new id"""
    if isinstance(v, RefVal):
        meta = map_heap_refs(v.meta, f) if v.meta is not None else None
        if v.loc[0] == "H":
            return RefVal(("H", f(v.loc[1])) + tuple(v.loc[2:]), v.mut, meta)
        return v
    if isinstance(v, AdtVal):
        return AdtVal(v.path, v.variant, [map_heap_refs(x, f) if x is not None else None for x in v.fields], v.kind, v.vname)
    if isinstance(v, TupleVal):
        return TupleVal([map_heap_refs(x, f) if x is not None else None for x in v.fields])
    if isinstance(v, ArrayVal):
        if v.elems is None:
            return v
        return ArrayVal([map_heap_refs(x, f) if x is not None else None for x in v.elems], v.n, v.elem_ty, v.summary)
    if isinstance(v, Choice):
        return Choice([(d, map_heap_refs(x, f)) for d, x in v.alts])
    if isinstance(v, Opaque):
        nd = []
        for k, x in v.data:
            if isinstance(x, (RefVal, AdtVal, TupleVal, ArrayVal, Choice, Opaque)):
                x = map_heap_refs(x, f)
            elif isinstance(x, tuple):
                x = tuple(map_heap_refs(y, f) if isinstance(y, (RefVal, AdtVal, TupleVal, ArrayVal, Choice, Opaque))
                          else (tuple(map_heap_refs(z, f) if isinstance(z, (RefVal, AdtVal, TupleVal, ArrayVal, Choice, Opaque)) else z for z in y) if isinstance(y, tuple) else y)
                          for y in x)
            nd.append((k, x))
        return Opaque(v.kind, tuple(nd))
    return v


# ---------------------------------------------------------------------------------------------
# value helpers

def top_of(tyj, deps=frozenset(), tags=frozenset()):
    t = ty_of_json(tyj) if isinstance(tyj, dict) else None
    if t is not None:
        return IntVal.top(t, deps=deps, tags=tags)
    if isinstance(tyj, dict) and tyj.get("k") == "float":
        term = None
        suffix = "".join("." + tg[1] for tg in sorted(t for t in tags if isinstance(t, tuple) and len(t) == 2 and t[0] == "field"))
        for tg in sorted(t for t in tags if isinstance(t, tuple) and len(t) == 2 and t[0] in ("existing", "sym")):
            term = ("sym", "%s:%s%s" % (tg[0], tg[1], suffix))
        return FloatVal(tyj["bits"], term=term, deps=deps, tags=tags)
    if isinstance(tyj, dict) and tyj.get("k") == "tuple":
        if not tyj["elems"]:
            return UNIT
        return TupleVal([top_of(e, deps, tags) for e in tyj["elems"]])
    return Top(tyj, deps=deps, tags=tags)


def join_int(a, b):
    ty = a.ty
    lo, hi = min(a.lo, b.lo), max(a.hi, b.hi)
    vals = None
    if a.vals is not None and b.vals is not None and len(a.vals | b.vals) <= 256:
        vals = a.vals | b.vals
    bits = None
    if a.bits is not None and b.bits is not None:
        bits = tuple(x if x == y else None for x, y in zip(a.bits, b.bits))
    lin = a.lin if (a.lin is not None and b.lin is not None and a.lin.key() == b.lin.key()) else None
    return IntVal(ty, lo, hi, vals, bits, lin, a.deps | b.deps, tags=a.tags | b.tags)


def join_val(a, b):
    """sound join of two values (loses precision); used at loop heads / unknown merges"""
    if a is None:
        return b
    if b is None:
        return a
    if fp(a) == fp(b):
        return a
    if isinstance(a, IntVal) and isinstance(b, IntVal) and a.ty.key() == b.ty.key():
        return join_int(a, b)
    if isinstance(a, FloatVal) and isinstance(b, FloatVal):
        return FloatVal(a.bits, deps=a.deps | b.deps, tags=a.tags | b.tags)
    if isinstance(a, TupleVal) and isinstance(b, TupleVal) and len(a.fields) == len(b.fields):
        return TupleVal([join_val(x, y) for x, y in zip(a.fields, b.fields)])
    if isinstance(a, AdtVal) and isinstance(b, AdtVal) and a.path == b.path and a.variant == b.variant and len(a.fields) == len(b.fields):
        return AdtVal(a.path, a.variant, [join_val(x, y) for x, y in zip(a.fields, b.fields)], a.kind, a.vname)
    if isinstance(a, AdtVal) and isinstance(b, AdtVal) and a.path == b.path:
        return Choice([((), a), ((), b)]) if False else Top({"k": "adt", "path": a.path, "args": []}, deps_of(a) | deps_of(b))
    return Top(getattr(a, "ty", None), deps_of(a) | deps_of(b))


class Interp:
    def __init__(self, prog, summaries=None, opts=None):
        self.prog = prog
        self.opts = opts or {}
        self.summaries = summaries
        self.obligations = {}     # site key -> dict(status...)
        self.unsummarised = {}
        self.visited_fns = set()
        self.steps = 0
        self.max_steps = self.opts.get("max_steps", 30_000_000)
        self.hooks = {}           # name -> callable(interp, state, info)
        self.call_stack_limit = 60
        self.site_events = []
        self.call_counts = {}
        self._const_cache = {}
        self._lin_tables = {}
        # wall-clock bail-out for runaway explorations only (the step budget is the deterministic bound): generous, so that a
        # loaded machine does not turn a normal run into "no verdict"
        self.deadline = (time.time() + self.opts["max_seconds"] * float(os.environ.get("VERIF_TIME_FACTOR", "4"))) if self.opts.get("max_seconds") else None

    # ----------------------------------------------------------------- locations
    def read_loc(self, st, loc):
        if loc[0] == "L":
            v = st.frame(loc[1]).locals[loc[2]]
        else:
            v = st.heap[loc[1]]
        for p in loc[-1]:
            v = self.project(st, v, p, loc)
        return v

    def write_loc(self, st, loc, val):
        if loc[0] == "L":
            fr = st.frame(loc[1])
            fr.locals[loc[2]] = self.update(st, fr.locals[loc[2]], loc[-1], val)
        else:
            st.heap[loc[1]] = self.update(st, st.heap[loc[1]], loc[-1], val)

    def project(self, st, v, p, loc=None):
        """p: ('f', idx, tyj) | ('d', variant) | ('i', k) | ('sub', a, b, from_end)"""
        if isinstance(v, Choice):
            return self.project_choice(st, v, p, loc)
        kind = p[0]
        if kind == "f":
            i = p[1]
            if isinstance(v, (AdtVal, TupleVal)):
                if i < len(v.fields):
                    return v.fields[i]
                return top_of(p[2] if len(p) > 2 else None)
            if isinstance(v, Opaque):
                return self.opaque_field(st, v, i, p[2] if len(p) > 2 else None)
            if isinstance(v, IntVal) and v.lin is None and len(p) > 2:
                return top_of(p[2], deps_of(v))
            tags = getattr(v, "tags", frozenset())
            if tags and isinstance(v, Top) and isinstance(v.ty, dict) and v.ty.get("k") == "adt":
                adt = self.prog.adts.get(v.ty["path"])
                if adt is not None and adt["kind"] == "struct" and i < len(adt["variants"][0]["fields"]):
                    tags = tags | frozenset([("field", adt["variants"][0]["fields"][i]["name"])])
            return top_of(p[2] if len(p) > 2 else None, deps_of(v), tags)
        if kind == "d":
            if isinstance(v, AdtVal):
                if v.variant is not None and v.variant != p[1]:
                    # downcast to a variant the value is not in: infeasible path marker
                    return Top(None)
                return v
            return v
        if kind == "i":
            k = p[1]
            return self.index_value(st, v, k)
        if kind == "sub":
            return v
        if kind == "win":
            elems, n, summ = self.seq_elems(v)
            if elems is not None:
                return ArrayVal(elems[p[1]:p[2]], max(0, p[2] - p[1]))
            return ArrayVal(None, max(0, p[2] - p[1]), None, summ)
        if kind == "other":
            elems, n, summ = self.seq_elems(v)
            if elems is not None:
                j = None
                for e in elems:
                    j = join_val(j, e)
                return ArrayVal(None, None, None, j)
            return v
        return Top(None, deps_of(v))

    def project_choice(self, st, v, p, loc):
        first = v.alts[0][1]
        same = False
        if isinstance(first, AdtVal) and first.variant is not None:
            same = all(isinstance(x, AdtVal) and x.path == first.path and x.variant == first.variant for _d, x in v.alts)
        elif isinstance(first, TupleVal):
            same = all(isinstance(x, TupleVal) and len(x.fields) == len(first.fields) for _d, x in v.alts)
        if not same or p[0] not in ("f", "d"):
            raise NeedSplit(loc)
        alts = [(d, self.project(st, x, p, loc)) for d, x in v.alts]
        return collapse_choice(alts)

    def opaque_field(self, st, v, i, tyj):
        if v.kind == "box":
            return v
        if v.kind == "reader":
            # deku Reader fields: 0 inner, 1 leftover, 2 last_bits_read_amt, 3 bits_read
            if i == 2:
                return IntVal.const(USIZE, v.get("last"))
            if i == 3:
                return IntVal.const(USIZE, v.get("bits_read"))
        return top_of(tyj, deps_of(v))

    def index_value(self, st, v, k):
        elems, n, summ = self.seq_elems(v)
        if isinstance(k, IntVal):
            c = k.cval()
        else:
            c = k
        if elems is not None and c is not None:
            if 0 <= c < len(elems):
                return elems[c]
            return Top(None)
        if elems is not None and isinstance(k, IntVal) and k.bits is not None and len(elems) in (2, 4, 8, 16, 32, 64, 128, 256) \
                and k.hi < len(elems) and all(e is not None for e in k.bits):
            r = self.affine_lookup(elems, k)
            if r is not None:
                return r
        if elems is not None and isinstance(k, IntVal):
            out = None
            for j in range(len(elems)):
                if k.lo <= j <= k.hi:
                    out = join_val(out, elems[j]) if out is not None else elems[j]
            if out is None:
                return Top(None)
            if isinstance(out, IntVal):
                out = out.with_(deps=out.deps | k.deps)
            return out
        if summ is not None:
            return summ
        return Top(None, deps_of(v))

    def affine_lookup(self, elems, k):
        """T[k] for a constant table that is GF(2)-affine in the index bits: T[i] = T[0] ^ XOR_{b in i} D_b"""
        key = id(elems)
        info = self._lin_tables.get(key)
        if info is None:
            info = False
            if all(isinstance(e, IntVal) and e.is_const() and not e.ty.signed for e in elems):
                vals = [e.lo for e in elems]
                n = len(vals)
                nb = n.bit_length() - 1
                t0 = vals[0]
                d = [vals[1 << b] ^ t0 for b in range(nb)]
                ok = True
                for i in range(n):
                    x = t0
                    for b in range(nb):
                        if (i >> b) & 1:
                            x ^= d[b]
                    if x != vals[i]:
                        ok = False
                        break
                if ok:
                    info = (t0, d, elems[0].ty, elems)
            self._lin_tables[key] = info
        if not info:
            return None
        t0, d, ty, _keep = info
        bits = []
        for j in range(ty.bits):
            mask, c = 0, (t0 >> j) & 1
            for b, db in enumerate(d):
                if (db >> j) & 1:
                    e = k.bits[b]
                    mask ^= e[0]
                    c ^= e[1]
            bits.append((mask, c))
        r = IntVal.from_bits(ty, tuple(bits))
        r.deps = r.deps | k.deps
        r.tags = frozenset([("affine_table", len(elems))])
        return r

    def seq_elems(self, v):
        """(elems tuple|None, length int|IntVal|None, summary)"""
        if isinstance(v, ArrayVal):
            return v.elems, v.n, v.summary
        if isinstance(v, Opaque) and v.kind in ("vec", "string"):
            return v.get("elems"), v.get("n"), v.get("summary")
        return None, None, None

    def update(self, st, v, proj, val):
        if not proj:
            return val
        p = proj[0]
        rest = proj[1:]
        if isinstance(v, Choice):
            raise NeedSplit(None)
        if p[0] == "f":
            i = p[1]
            if isinstance(v, AdtVal):
                fs = list(v.fields)
                while len(fs) <= i:
                    fs.append(None)
                fs[i] = self.update(st, fs[i], rest, val)
                return AdtVal(v.path, v.variant, fs, v.kind, v.vname)
            if isinstance(v, TupleVal):
                fs = list(v.fields)
                while len(fs) <= i:
                    fs.append(None)
                fs[i] = self.update(st, fs[i], rest, val)
                return TupleVal(fs)
            if isinstance(v, Opaque) and v.kind == "reader" and not rest:
                if i == 2 and isinstance(val, IntVal) and val.is_const():
                    return v.set(last=val.cval())
                if i == 3 and isinstance(val, IntVal) and val.is_const():
                    return v.set(bits_read=val.cval())
                raise Inconclusive("write to reader field %d with non-constant" % i)
            if v is None:
                # partially initialised aggregate (field-by-field init)
                fs = [None] * (i + 1)
                fs[i] = self.update(st, None, rest, val)
                return TupleVal(fs)
            # write into unknown aggregate: materialise known struct types, else stays unknown
            if isinstance(v, Top) and isinstance(v.ty, dict):
                mv = self.materialise_struct(v)
                if mv is not None:
                    return self.update(st, mv, proj, val)
            return Top(getattr(v, "ty", None), deps_of(v) | deps_of(val))
        if p[0] == "d":
            if isinstance(v, AdtVal):
                return self.update(st, v, rest, val)
            return self.update(st, v, rest, val)
        if p[0] == "i":
            k = p[1]
            c = k.cval() if isinstance(k, IntVal) else k
            if isinstance(v, ArrayVal) and v.elems is not None and c is not None and 0 <= c < len(v.elems):
                es = list(v.elems)
                es[c] = self.update(st, es[c], rest, val)
                return ArrayVal(es, v.n, v.elem_ty)
            if isinstance(v, Opaque) and v.kind == "vec" and v.get("elems") is not None and c is not None and 0 <= c < len(v.get("elems")):
                es = list(v.get("elems"))
                es[c] = self.update(st, es[c], rest, val)
                return v.set(elems=tuple(es))
            if isinstance(v, ArrayVal):
                summ = join_val(v.summary, val) if v.elems is None else None
                if v.elems is not None:
                    for e in v.elems:
                        summ = join_val(summ, e)
                    summ = join_val(summ, val)
                return ArrayVal(None, v.n, v.elem_ty, summ)
            return Top(getattr(v, "ty", None), deps_of(v) | deps_of(val))
        return Top(None)

    # ----------------------------------------------------------------- places / operands
    def place_loc(self, st, fr, place):
        """resolve a MIR place to a location (following derefs)"""
        loc = ("L", fr.id, place["local"], ())
        for pj in place["proj"]:
            if "deref" in pj:
                v = self.read_loc(st, loc)
                if isinstance(v, Choice):
                    raise NeedSplit(loc)
                if isinstance(v, RefVal):
                    loc = v.loc
                elif isinstance(v, Opaque) and v.kind == "box":
                    loc = v.get("loc")
                elif isinstance(v, Opaque) and v.kind in ("str", "string"):
                    # &str / &String constants are modelled by value: *s is s
                    loc = st.new_heap(v)
                else:
                    # deref of unknown pointer: materialise an unknown heap cell
                    tl = st.new_heap(Top(None, deps_of(v), getattr(v, "tags", frozenset())))
                    loc = tl
            elif "field" in pj:
                loc = loc[:-1] + (loc[-1] + (("f", pj["field"], pj.get("ty")),),)
            elif "downcast" in pj:
                loc = loc[:-1] + (loc[-1] + (("d", pj["downcast"]),),)
            elif "index_local" in pj:
                k = fr.locals[pj["index_local"]]
                loc = loc[:-1] + (loc[-1] + (("i", k),),)
            elif "const_index" in pj:
                if pj.get("from_end"):
                    loc = loc[:-1] + (loc[-1] + (("i", IntVal.top(USIZE)),),)
                else:
                    loc = loc[:-1] + (loc[-1] + (("i", pj["const_index"]),),)
            elif "subslice" in pj:
                loc = loc[:-1] + (loc[-1] + (("sub",) + tuple(pj["subslice"]) + (pj.get("from_end"),),),)
            else:
                loc = loc[:-1] + (loc[-1] + (("other",),),)
        return loc

    def read_place(self, st, fr, place):
        if not place["proj"]:
            v = fr.locals[place["local"]]
            if v is None:
                return top_of(fr.fn["locals"][place["local"]]["ty"])
            return v
        loc = self.place_loc(st, fr, place)
        v = self.read_loc(st, loc)
        if v is None:
            return Top(None)
        return v

    def const_val(self, c):
        tyj = c["ty"]
        t = ty_of_json(tyj)
        if t is not None and "int" in c:
            return IntVal.const(t, c["int"])
        if tyj.get("k") == "float":
            txt = c.get("ftext")
            try:
                cv = float(txt) if txt is not None else None
            except ValueError:
                cv = None
            return FloatVal(tyj["bits"], const=cv, term=("const", txt))
        if "fn" in c:
            return Opaque.make("fnptr", path=(c["fn"].get("resolved") or c["fn"]["path"]))
        if tyj.get("k") == "tuple" and not tyj["elems"]:
            return UNIT
        v = c.get("val")
        if v and v.get("kind") == "ref_ref_bytes" and tyj.get("k") == "ref" and tyj["to"].get("k") == "ref":
            inner_c = {"ty": tyj["to"], "val": {"kind": "ref_bytes", "bytes": v["bytes"]}}
            iv = self.const_val(inner_c)
            if isinstance(iv, Opaque) and iv.kind == "constref":
                return Opaque.make("constrefref", arr=iv.get("arr"))
            return Top(tyj)
        if v:
            inner0 = tyj["to"] if tyj.get("k") == "ref" else tyj
            if inner0.get("k") == "adt" and inner0["path"] in self.prog.adts:
                adt = self.prog.adts[inner0["path"]]
                if adt["kind"] == "enum" and all(not vv["fields"] for vv in adt["variants"]):
                    d = None
                    if v["kind"] == "scalar":
                        d = int(v["bits"], 16)
                    elif v["kind"] in ("bytes", "ref_bytes") and v.get("bytes"):
                        d = 0
                        for j, b in enumerate(v["bytes"]):
                            d |= b << (8 * j)
                    if d is not None:
                        for vv in adt["variants"]:
                            if vv["discr"] is not None and (vv["discr"] & ((1 << (8 * max(1, len(v.get("bytes") or [0])))) - 1)) == d or vv["discr"] == d:
                                val = AdtVal(inner0["path"], vv["idx"], [], "adt", vv["name"])
                                if tyj.get("k") == "ref":
                                    return Opaque.make("constref", arr=val)
                                return val
            if v["kind"] == "str":
                return Opaque.make("str", s=v["str"])
            if v["kind"] in ("bytes", "ref_bytes", "slice_bytes"):
                inner = tyj
                if inner.get("k") == "ref":
                    inner = inner["to"]
                it = ty_of_json(inner)
                if it is not None and len(v["bytes"]) * 8 >= it.bits:
                    x = 0
                    for j in range(it.bits // 8 or 1):
                        x |= v["bytes"][j] << (8 * j)
                    if it.signed and x >= (1 << (it.bits - 1)):
                        x -= 1 << it.bits
                    iv = IntVal.const(it, x)
                    if tyj.get("k") == "ref":
                        return Opaque.make("constref", arr=iv)
                    return iv
                if inner.get("k") in ("array", "slice"):
                    et = ty_of_json(inner["elem"])
                    if et is not None:
                        w = et.bits // 8
                        b = v["bytes"]
                        elems = []
                        for i in range(0, len(b), w):
                            x = 0
                            for j in range(w):
                                x |= b[i + j] << (8 * j)
                            elems.append(IntVal.const(et, x if not et.signed or x < (1 << (et.bits - 1)) else x - (1 << et.bits)))
                        arr = ArrayVal(elems, len(elems), inner["elem"])
                        if tyj.get("k") == "ref":
                            return Opaque.make("constref", arr=arr)
                        return arr
            if v["kind"] == "zst":
                if tyj.get("k") == "adt":
                    return AdtVal(tyj["path"], 0, [], "adt")
                return UNIT
            if v.get("tree"):
                tv = self.const_tree_val(v["tree"])
                if tv is not None:
                    if v["kind"] == "ref_bytes" and tyj.get("k") == "ref":
                        return Opaque.make("constref", arr=tv)
                    return tv
        if tyj.get("k") == "adt" and c.get("uneval") is None and "text" in c:
            # unit-like enum constants etc.
            return Top(tyj)
        if c.get("uneval"):
            pc = self.prog.consts.get(c["uneval"])
            if pc is not None and c.get("promoted") is None:
                return self.const_from_fact(pc)
            if c.get("promoted") is not None:
                pv = self.eval_promoted(c["uneval"], c["promoted"])
                if pv is not None:
                    return pv
        return Top(tyj)

    def const_tree_val(self, t):
        """value of a constant decoded by the driver through its layout (ints, floats, tuples, structs, arrays, thin refs)"""
        k = t.get("k")
        if k == "int":
            it = ty_of_json(t["ty"])
            if it is None:
                return None
            x = int(t["bits"], 16)
            if it.signed and x >= (1 << (it.bits - 1)):
                x -= 1 << it.bits
            return IntVal.const(it, x)
        if k == "float":
            bits = t["ty"]["bits"]
            fv = _f64(int(t["bits"], 16), bits)
            return FloatVal(bits, const=fv, term=("const", repr(fv)))
        if k in ("tuple", "struct"):
            fs = [self.const_tree_val(x) for x in t["fields"]]
            if any(f is None for f in fs):
                return None
            if k == "tuple":
                return TupleVal(fs) if fs else UNIT
            adt = self.prog.adts.get(t["path"])
            vn = adt["variants"][0]["name"] if adt else None
            return AdtVal(t["path"], 0, fs, "adt", vn)
        if k == "array":
            es = [self.const_tree_val(x) for x in t["elems"]]
            if any(e is None for e in es):
                return None
            return ArrayVal(es, len(es), t.get("elem"))
        if k == "ref":
            inner = self.const_tree_val(t["to"])
            return None if inner is None else Opaque.make("constref", arr=inner)
        if k == "str":
            return Opaque.make("str", s=t["s"])
        return None

    def eval_promoted(self, fnpath, idx):
        """value of a promoted constant whose bytes could not be decoded: evaluate its straight-line MIR body.
        References become 'constref' nodes, materialised on the heap when the operand is used."""
        fn = self.prog.fns.get(fnpath)
        if fn is None or idx >= len(fn.get("promoted") or []):
            return None
        body = fn["promoted"][idx]
        env = {}
        b = 0
        for _ in range(64):
            blk = body["blocks"][b]
            for s in blk["stmts"]:
                if "assign" not in s:
                    return None
                pl, rv = s["assign"]
                if pl["proj"]:
                    return None
                v = self._promoted_rvalue(env, rv)
                if v is None:
                    return None
                env[pl["local"]] = v
            t = blk["term"]
            if t is None:
                return None
            if "goto" in t:
                b = t["goto"]
                continue
            if "return" in t:
                return env.get(0)
            return None
        return None

    def _promoted_operand(self, env, op):
        if "const" in op:
            return self.const_val(op["const"])
        pl = op.get("copy") or op.get("move")
        if pl is None or pl["proj"]:
            return None
        return env.get(pl["local"])

    def _promoted_rvalue(self, env, rv):
        if "use" in rv:
            return self._promoted_operand(env, rv["use"])
        if "ref" in rv:
            pl = rv["ref"]["place"]
            if not pl["proj"]:
                v = env.get(pl["local"])
                return None if v is None else Opaque.make("constref", arr=v)
            if len(pl["proj"]) == 1 and pl["proj"][0].get("deref"):
                return env.get(pl["local"])      # &*x == x
            return None
        if "aggregate" in rv:
            ag = rv["aggregate"]
            fs = [self._promoted_operand(env, o) for o in ag["fields"]]
            if any(f is None for f in fs):
                return None
            if ag["kind"] == "adt":
                return AdtVal(ag["adt"], ag["variant"], fs, "adt", ag.get("variant_name"))
            if ag["kind"] == "tuple":
                return TupleVal(fs)
            if ag["kind"] == "array":
                return ArrayVal(fs, len(fs), ag.get("elem"))
        return None

    def materialise_const(self, st, v):
        """turn 'constref' nodes of a constant tree into heap references"""
        if isinstance(v, Opaque) and v.kind == "constref":
            return RefVal(st.new_heap(self.materialise_const(st, v.get("arr"))), False)
        if isinstance(v, AdtVal) and v.fields:
            fs = [self.materialise_const(st, f) for f in v.fields]
            if any(a is not b for a, b in zip(fs, v.fields)):
                return AdtVal(v.path, v.variant, fs, v.kind, v.vname)
        elif isinstance(v, TupleVal) and v.fields:
            fs = [self.materialise_const(st, f) for f in v.fields]
            if any(a is not b for a, b in zip(fs, v.fields)):
                return TupleVal(fs)
        elif isinstance(v, ArrayVal) and v.elems:
            es = [self.materialise_const(st, f) for f in v.elems]
            if any(a is not b for a, b in zip(es, v.elems)):
                return ArrayVal(es, len(es), v.elem_ty)
        return v

    def const_from_fact(self, pc):
        return self.const_val({"ty": pc["ty"], "val": pc["value"] if pc["value"] and pc["value"].get("kind") != "scalar" else None,
                               **({"int": int(pc["value"]["bits"], 16)} if pc["value"] and pc["value"].get("kind") == "scalar" and pc["ty"].get("k") != "float" else {}),
                               **({"ftext": repr(_f64(int(pc["value"]["bits"], 16), pc["ty"]["bits"]))} if pc["value"] and pc["value"].get("kind") == "scalar" and pc["ty"].get("k") == "float" else {})})

    def operand(self, st, fr, op):
        if "copy" in op:
            return self.read_place(st, fr, op["copy"])
        if "move" in op:
            return self.read_place(st, fr, op["move"])
        if "const" in op:
            c = op["const"]
            v = self._const_cache.get(id(c))
            if v is None:
                v = self.const_val(c)
                self._const_cache[id(c)] = v
            elif isinstance(v, IntVal):
                v = v.fresh()
            if isinstance(v, Opaque) and v.kind == "constref":
                return self.materialise_const(st, v)
            if isinstance(v, (AdtVal, TupleVal, ArrayVal)):
                return self.materialise_const(st, v)
            if isinstance(v, Opaque) and v.kind == "constrefref":
                loc = st.new_heap(v.get("arr"))
                loc2 = st.new_heap(RefVal(loc, False))
                return RefVal(loc2, False)
            return v
        return Top(None)

    def operand_nc(self, st, fr, op):
        """operand value that must not be a lazy Choice (forks the state on it)"""
        v = self.operand(st, fr, op)
        if isinstance(v, Choice):
            pl = op.get("copy") or op.get("move")
            j = self.join_choice(v)
            if j is not None:
                self.write_loc(st, self.place_loc(st, fr, pl), j)
                return j
            raise NeedSplit(self.place_loc(st, fr, pl))
        return v

    def join_choice(self, ch):
        """sound join (conditions dropped) of a choice between many plain numbers; None if it should be split"""
        vals = [x for _d, x in ch.alts]
        if all(isinstance(x, FloatVal) for x in vals):
            terms = sorted(set(repr(x.term) for x in vals))
            d = frozenset()
            for x in vals:
                d |= x.deps
            consts = set(x.const for x in vals)
            lo = hi = None
            if all(x.lo is not None and x.hi is not None for x in vals):
                lo, hi = min(x.lo for x in vals), max(x.hi for x in vals)
            tt = [x.term for x in vals]
            term = ("phi",) + tuple(t for t in tt) if all(t is not None for t in tt) and len(tt) <= 4 else None
            return FloatVal(vals[0].bits, const=consts.pop() if len(consts) == 1 else None, term=term, deps=d, lo=lo, hi=hi)
        thr = self.opts.get("choice_join_threshold", 6)
        if all(isinstance(x, IntVal) for x in vals) and any(x.lin is not None and not x.is_const() for x in vals):
            # alternatives with exact symbolic forms (each under its own condition) carry information a join would destroy:
            # they are kept apart much longer than alternatives that are plain constants
            thr = self.opts.get("choice_join_threshold_exact", 96)
        if len(vals) > thr and all(isinstance(x, IntVal) for x in vals) and len(set(x.ty.key() for x in vals)) == 1:
            out = vals[0]
            for x in vals[1:]:
                out = join_int(out, x)
            return out.fresh()
        return None

    # ----------------------------------------------------------------- integer transfer functions
    def reduce_int(self, st, v):
        """apply the path's linear constraints / refinements to an IntVal"""
        if not isinstance(v, IntVal) or v.bits is None:
            return v
        pc = st.pc
        if not pc.rows and not pc.vals:
            return v
        nb = tuple(pc.reduce(e) for e in v.bits)
        changed = nb != v.bits
        allowed = pc.vals.get(nb) if pc.vals else None
        if not changed and allowed is None:
            return v
        out = IntVal.from_bits(v.ty, nb, v.tags) if (changed and not (v.ty.signed)) else v.with_(bits=nb)
        out.vid = v.vid
        out.deps = v.deps | out.deps
        lo, hi = max(out.lo, v.lo), min(out.hi, v.hi)
        vals = v.vals
        if allowed is not None:
            vals = allowed if vals is None else (vals & allowed)
        if vals is not None and len(vals) > 0:
            vals = frozenset(x for x in vals if lo <= x <= hi)
            if vals:
                lo, hi = max(lo, min(vals)), min(hi, max(vals))
        out.lo, out.hi, out.vals = lo, hi, vals
        if v.lin is not None and out.lin is None:
            out.lin = v.lin
        return out

    def binop(self, st, op, a, b, site=None):
        if isinstance(a, FloatVal) or isinstance(b, FloatVal):
            return self.float_binop(op, a, b)
        if not isinstance(a, IntVal) or not isinstance(b, IntVal):
            d = deps_of(a) | deps_of(b)
            if op in ("Eq", "Ne", "Lt", "Le", "Gt", "Ge"):
                return IntVal.top(BOOL, deps=d)
            if isinstance(a, IntVal):
                return IntVal.top(a.ty, deps=d)
            return Top(None, d)
        a = self.reduce_int(st, a)
        b = self.reduce_int(st, b)
        ty = a.ty
        deps = a.deps | b.deps
        tags = a.tags | b.tags
        w = ty.bits
        if op in ("Eq", "Ne", "Lt", "Le", "Gt", "Ge"):
            return self.compare(st, op, a, b)
        ca, cb = a.cval(), b.cval()
        if op in ("BitAnd", "BitOr", "BitXor"):
            bits = None
            if a.bits is not None and b.bits is not None:
                bits = []
                for x, y in zip(a.bits, b.bits):
                    bits.append(_bitop(op, x, y))
                bits = tuple(bits)
            if bits is not None and all(e is not None for e in bits) and not ty.signed:
                r = IntVal.from_bits(ty, bits, tags)
                r.deps = deps | r.deps
                return r
            if ca is not None and cb is not None:
                return IntVal.const(ty, _wrap(ty, {"BitAnd": ca & cb, "BitOr": ca | cb, "BitXor": ca ^ cb}[op]))
            lo, hi = ty.min(), ty.max()
            if not ty.signed and a.lo >= 0 and b.lo >= 0:
                lo = 0
                if op == "BitAnd":
                    hi = min(a.hi, b.hi)
                else:
                    hi = (1 << max(a.hi.bit_length(), b.hi.bit_length())) - 1
            r = IntVal(ty, lo, hi, None, bits, None, deps, tags=tags)
            return r
        if op in ("Shl", "Shr"):
            if cb is not None and 0 <= cb < w:
                if a.bits is not None and not ty.signed:
                    if op == "Shl":
                        bits = tuple([ZERO] * cb + list(a.bits[: w - cb]))
                    else:
                        bits = tuple(list(a.bits[cb:]) + [ZERO] * cb)
                    if all(e is not None for e in bits):
                        r = IntVal.from_bits(ty, bits, tags)
                        r.deps = deps | r.deps
                        return r
                    lo, hi = (0, ty.max())
                    if op == "Shr":
                        lo, hi = a.lo >> cb, a.hi >> cb
                    return IntVal(ty, lo, hi, None, bits, None, deps, tags=tags)
                if op == "Shr":
                    return IntVal(ty, a.lo >> cb, a.hi >> cb, None, None, None, deps, tags=tags)
                if op == "Shl" and a.lo >= 0 and (a.hi << cb) <= ty.max():
                    lin = a.lin.scale(1 << cb) if a.lin is not None else None
                    return IntVal(ty, a.lo << cb, a.hi << cb, None, None, lin, deps, tags=tags)
            return IntVal.top(ty, deps=deps, tags=tags)
        if op in ("Add", "Sub", "Mul"):
            return self.arith(st, op, a, b, wrap=True)
        if op in ("Div", "Rem"):
            if ca is not None and cb is not None and cb != 0:
                q = abs(ca) // abs(cb) * (1 if (ca >= 0) == (cb >= 0) else -1)
                return IntVal.const(ty, q if op == "Div" else ca - q * cb)
            if cb is not None and cb > 0 and a.lo >= 0:
                if op == "Div":
                    return IntVal(ty, a.lo // cb, a.hi // cb, None, None, None, deps, tags=tags)
                return IntVal(ty, 0, min(cb - 1, a.hi), None, None, None, deps, tags=tags)
            if op == "Rem" and b.lo > 0 and a.lo >= 0:
                return IntVal(ty, 0, min(b.hi - 1, a.hi), None, None, None, deps, tags=tags)
            return IntVal.top(ty, deps=deps, tags=tags)
        if op == "Cmp":
            return Top(None, deps)
        return IntVal.top(ty, deps=deps, tags=tags)

    def arith(self, st, op, a, b, wrap):
        """exact integer add/sub/mul; result range may exceed the type (caller checks / wraps)"""
        ty = a.ty
        deps = a.deps | b.deps
        tags = a.tags | b.tags
        la = a.lin if a.lin is not None else (Lin.from_bits(a.bits) if (a.bits is not None and not ty.signed) else None)
        lb = b.lin if b.lin is not None else (Lin.from_bits(b.bits) if (b.bits is not None and not ty.signed) else None)
        lin = None
        if op == "Add":
            lo, hi = a.lo + b.lo, a.hi + b.hi
            if la is not None and lb is not None:
                lin = la.add(lb)
        elif op == "Sub":
            lo, hi = a.lo - b.hi, a.hi - b.lo
            if la is not None and lb is not None:
                lin = la.add(lb, -1)
        else:
            cands = [a.lo * b.lo, a.lo * b.hi, a.hi * b.lo, a.hi * b.hi]
            lo, hi = min(cands), max(cands)
            if la is not None and b.is_const():
                lin = la.scale(b.cval())
            elif lb is not None and a.is_const():
                lin = lb.scale(a.cval())
        if lin is not None:
            l2, h2 = lin.range()
            lo, hi = max(lo, l2), min(hi, h2)
        vals = None
        if a.vals and b.vals and len(a.vals) * len(b.vals) <= 256:
            f = {"Add": lambda x, y: x + y, "Sub": lambda x, y: x - y, "Mul": lambda x, y: x * y}[op]
            vals = frozenset(f(x, y) for x in a.vals for y in b.vals)
            lo, hi = max(lo, min(vals)), min(hi, max(vals))
        na, nb = _name_of(a), _name_of(b)
        if (na is not None or nb is not None) and lin is None:
            sym = {"Add": "+", "Sub": "-", "Mul": "*"}[op]
            nm = "(%s%s%s)" % (na if na is not None else (a.cval() if a.is_const() else "?"), sym, nb if nb is not None else (b.cval() if b.is_const() else "?"))
            tags = frozenset(t for t in tags if not (isinstance(t, tuple) and t and t[0] == "name")) | frozenset([("name", nm)])
        r = IntVal(ty, lo, hi, vals, None, lin, deps, tags=tags)
        if lo == hi:
            r = IntVal.const(ty, lo) if ty.min() <= lo <= ty.max() else r
            r.deps, r.tags = deps, tags
        if wrap and (lo < ty.min() or hi > ty.max()):
            return IntVal.top(ty, deps=deps, tags=tags)
        if lin is not None and r.bits is None and not ty.signed and lo >= 0:
            r.bits = _lin_to_bits(lin, ty.bits)
        return r

    def compare(self, st, op, a, b):
        deps = a.deps | b.deps
        res = None
        if a.vid == b.vid and op in ("Eq", "Le", "Ge", "Ne", "Lt", "Gt"):
            r = IntVal.const(BOOL, 1 if op in ("Eq", "Le", "Ge") else 0)
            r.deps = deps
            return r
        if op == "Eq":
            if a.hi < b.lo or b.hi < a.lo:
                res = False
            elif a.is_const() and b.is_const():
                res = a.lo == b.lo
        elif op == "Ne":
            if a.hi < b.lo or b.hi < a.lo:
                res = True
            elif a.is_const() and b.is_const():
                res = a.lo != b.lo
        elif op == "Lt":
            res = True if a.hi < b.lo else (False if a.lo >= b.hi else None)
        elif op == "Le":
            res = True if a.hi <= b.lo else (False if a.lo > b.hi else None)
        elif op == "Gt":
            res = True if a.lo > b.hi else (False if a.hi <= b.lo else None)
        elif op == "Ge":
            res = True if a.lo >= b.hi else (False if a.hi < b.lo else None)
        if res is None and a.vals is not None and b.vals is not None and len(a.vals) * len(b.vals) <= 4096:
            f = _CMP[op]
            outs = set(f(x, y) for x in a.vals for y in b.vals)
            if len(outs) == 1:
                res = outs.pop()
        if res is not None:
            r = IntVal.const(BOOL, 1 if res else 0)
            r.deps = deps
            return r
        # single-bit tests: (x != 0) where x has exactly one symbolic bit
        bit = None
        if op in ("Eq", "Ne") and b.is_const() and a.bits is not None and a.ty.kind != "bool":
            sb = a.sym_bits()
            c = b.cval() & ((1 << a.ty.bits) - 1)
            if sb is not None and len(sb) >= 1:
                # value == c  <=> every bit matches
                exprs = []
                ok = True
                for k, e in enumerate(a.bits):
                    want = (c >> k) & 1
                    if e[0] == 0:
                        if e[1] != want:
                            ok = False
                    else:
                        exprs.append((e[0], e[1] ^ want))   # expr must be 0
                if not ok:
                    r = IntVal.const(BOOL, 0 if op == "Eq" else 1)
                    r.deps = deps
                    return r
                uniq = []
                for e in exprs:
                    if e not in uniq:
                        uniq.append(e)
                if len(uniq) == 1:
                    e = uniq[0]
                    # eq <=> e == 0
                    bit = (e[0], e[1] ^ 1) if op == "Eq" else e
        elif op in ("Eq", "Ne") and a.ty.kind == "bool" and b.is_const() and a.bits is not None and a.bits[0] is not None:
            e = a.bits[0]
            want = b.cval()
            t = (e[0], e[1] ^ want ^ 1)
            bit = t if op == "Eq" else (t[0], t[1] ^ 1)
        r = IntVal(BOOL, 0, 1, frozenset([0, 1]), (bit,) if bit is not None else None, None, deps, cmp=(op, a, b))
        return r

    def float_binop(self, op, a, b):
        d = deps_of(a) | deps_of(b)
        if op in ("Eq", "Ne", "Lt", "Le", "Gt", "Ge"):
            r = IntVal(BOOL, 0, 1, frozenset([0, 1]), None, None, d, cmp=(op, a, b))
            if isinstance(a, FloatVal) and isinstance(b, FloatVal) and a.const is not None and b.const is not None:
                return IntVal.const(BOOL, 1 if _CMP[op](a.const, b.const) else 0)
            return r
        bits = a.bits if isinstance(a, FloatVal) else b.bits
        ta = a.term if isinstance(a, FloatVal) else None
        tb = b.term if isinstance(b, FloatVal) else None
        const = None
        if isinstance(a, FloatVal) and isinstance(b, FloatVal) and a.const is not None and b.const is not None:
            try:
                const = {"Add": a.const + b.const, "Sub": a.const - b.const, "Mul": a.const * b.const,
                         "Div": a.const / b.const if b.const != 0 else None}.get(op)
            except (OverflowError, ZeroDivisionError):
                const = None
        term = (op, ta, tb) if (ta is not None and tb is not None) else None
        return FloatVal(bits, const=const, term=term, deps=d, tags=getattr(a, "tags", frozenset()) | getattr(b, "tags", frozenset()))

    def cast(self, st, kind, v, tyj, site=None):
        t = ty_of_json(tyj)
        if kind == "IntToInt" and isinstance(v, IntVal) and t is not None:
            v = self.reduce_int(st, v)
            if t.min() <= v.lo and v.hi <= t.max():
                bits = None
                if v.bits is not None:
                    if len(v.bits) >= t.bits:
                        bits = v.bits[: t.bits]
                    elif not v.ty.signed or v.lo >= 0:
                        bits = tuple(v.bits) + tuple(ZERO for _ in range(t.bits - len(v.bits)))
                r = IntVal(t, v.lo, v.hi, v.vals, bits, v.lin, v.deps, tags=v.tags)
                if v.ty.kind == "bool" and v.bits is not None and v.bits[0] is not None:
                    r.bits = (v.bits[0],) + tuple(ZERO for _ in range(t.bits - 1))
                    r.lin = Lin.from_bits(r.bits)
                return r
            # value may not fit: truncation / reinterpretation
            self.event(st, "narrow", site=site, lo=v.lo, hi=v.hi, to=repr(t), src=repr(v.ty), deps=v.deps, lin=v.lin,
                       facts=tuple(st.pc.log), fn=st.top().fn["path"])
            bits = None
            if v.bits is not None and len(v.bits) >= t.bits and not t.signed:
                bits = v.bits[: t.bits]
                if all(e is not None for e in bits):
                    r = IntVal.from_bits(t, bits, v.tags)
                    r.deps = r.deps | v.deps
                    return r
            if v.is_const():
                return IntVal.const(t, _wrap(t, v.lo))
            if v.lin is not None and not t.signed and v.lo >= 0 and v.hi < 4 * (1 << t.bits):
                # exact wrap: lazy choice over the wrap count k, each guarded by k*2^w <= value < (k+1)*2^w
                m = 1 << t.bits
                alts = []
                for k in range(v.lo // m, v.hi // m + 1):
                    lo, hi = max(v.lo, k * m) - k * m, min(v.hi, (k + 1) * m - 1) - k * m
                    g1 = ("guard", {"op": "Ge", "a": {"lin": v.lin}, "b": {"const": k * m}, "deps": v.deps})
                    g2 = ("guard", {"op": "Lt", "a": {"lin": v.lin}, "b": {"const": (k + 1) * m}, "deps": v.deps})
                    from .values import Lin as _Lin
                    alts.append(((g1, g2), IntVal(t, lo, hi, None, None, v.lin.add(_Lin(-k * m, {})), v.deps, tags=v.tags)))
                return Choice(alts) if len(alts) > 1 else alts[0][1]
            return IntVal(t, None, None, None, bits, None, v.deps, tags=v.tags)
        if kind == "IntToFloat" and isinstance(v, IntVal):
            return FloatVal(tyj["bits"], const=float(v.lo) if v.is_const() else None, term=("int", v), deps=v.deps, tags=v.tags,
                            lo=v.lo, hi=v.hi)
        if kind == "FloatToInt" and isinstance(v, FloatVal) and t is not None:
            lo = hi = None
            if v.const is not None and v.const == v.const and abs(v.const) < 1e30:
                c = int(v.const)
                c = max(t.min(), min(t.max(), c))
                return IntVal.const(t, c)
            if v.lo is not None and v.hi is not None:
                lo, hi = max(t.min(), int(v.lo)), min(t.max(), int(v.hi))
            return IntVal(t, lo, hi, None, None, None, v.deps, tags=v.tags | frozenset([("fterm", repr(v.term))]))
        if kind == "FloatToFloat" and isinstance(v, FloatVal):
            return FloatVal(tyj["bits"], const=v.const, term=("fcast", tyj["bits"], v.term) if v.term is not None else None,
                            deps=v.deps, tags=v.tags, lo=v.lo, hi=v.hi)
        if kind.startswith("PointerCoercion") or kind in ("PtrToPtr", "Transmute"):
            return v
        if t is not None:
            return IntVal.top(t, deps=deps_of(v))
        return top_of(tyj, deps_of(v))

    def event(self, st, kind, **kw):
        kw["kind"] = kind
        st.events.append(kw)

    # ----------------------------------------------------------------- obligations (panic sites)
    def obligation(self, st, fr, key, ok, detail):
        """record the verdict for a panic site on this visit"""
        o = self.obligations.get(key)
        if o is None:
            o = {"visits": 0, "failed": 0, "detail": None, "fn": fr.fn["path"]}
            self.obligations[key] = o
        o["visits"] += 1
        if not ok:
            o["failed"] += 1
            if o["detail"] is None:
                o["detail"] = detail

    # ----------------------------------------------------------------- running
    def call_fn(self, st, fn, args, dest_loc=None, target=None, on_return=None, tag=None):
        """push a frame for workspace function `fn` with argument values"""
        fr = Frame(fn, st.next_id)
        st.next_id += 1
        for i, a in enumerate(args):
            if 1 + i < len(fr.locals):
                fr.locals[1 + i] = a
        fr.dest = dest_loc
        fr.target = target
        fr.on_return = on_return
        fr.tag = tag
        st.frames.append(fr)
        self.visited_fns.add(fn["path"])
        return fr

    def run_function(self, fn, args, state=None):
        """explore all paths of fn(args) from `state`; returns list of final states (status returned/diverged)"""
        st = state or State()
        base = len(st.frames)
        self.call_fn(st, fn, args)
        return self.explore(st, base)

    def explore(self, st0, base):
        """run until the frame at index `base` has returned. Returns list of states."""
        work = [st0]
        done = []
        while work:
            st = work.pop()
            while True:
                if st.status != "run":
                    done.append(st)
                    break
                if len(st.frames) <= base:
                    done.append(st)
                    break
                if st.stop is not None and len(st.frames) == st.stop[0] and st.frames[-1].block == st.stop[1]:
                    done.append(st)
                    break
                try:
                    nxt = self.step(st, base)
                except NeedSplit as ns:
                    nxt = self.split_choice(st, ns.loc)
                if nxt is None:
                    continue
                # nxt: list of successor states (fork); first continues in this loop
                if not nxt:
                    break
                if len(nxt) > 1:
                    for s in nxt:
                        s.nd += 1
                for s in nxt[1:]:
                    work.append(s)
                st = nxt[0]
        return done

    def split_choice(self, st, loc):
        if loc is None:
            raise Inconclusive("choice in unsupported position")
        ch = self.find_choice(st, loc)
        if ch is None:
            raise Inconclusive("choice not found at %r" % (loc,))
        cloc, cval = ch
        outs = []
        groups = {}
        order = []
        if all(isinstance(v, AdtVal) and v.variant is not None for _d, v in cval.alts):
            for d, v in cval.alts:
                k = (v.path, v.variant)
                if k not in groups:
                    groups[k] = []
                    order.append(k)
                groups[k].append((d, v))
        if len(order) > 1:
            for k in order:
                g = groups[k]
                s = st.copy()
                if len(g) == 1:
                    ok = True
                    for f in g[0][0]:
                        if not s.pc.apply_fact(f):
                            ok = False
                            break
                    if not ok:
                        continue
                    self.write_loc(s, cloc, g[0][1])
                else:
                    s.pc.apply_fact(("or", tuple(tuple(d) for d, _v in g)))
                    self.write_loc(s, cloc, Choice(g))
                outs.append(s)
            return outs
        for delta, v in cval.alts:
            s = st.copy()
            ok = True
            for f in delta:
                if not s.pc.apply_fact(f):
                    ok = False
                    break
            if not ok:
                continue
            self.write_loc(s, cloc, v)
            outs.append(s)
        return outs

    def find_choice(self, st, loc):
        """find the outermost Choice along loc's path"""
        base = loc[:-1] + ((),)
        v = self.read_loc(st, base)
        if isinstance(v, Choice):
            return base, v
        proj = loc[-1]
        for i in range(len(proj)):
            sub = loc[:-1] + (proj[: i + 1],)
            try:
                v = self.read_loc(st, sub)
            except NeedSplit as ns:
                return self.find_choice(st, ns.loc) if ns.loc != loc else None
            if isinstance(v, Choice):
                return sub, v
        return None

    # one step of the top frame: returns None (continue same state), or list of successor states
    def step(self, st, base):
        self.steps += 1
        if self.steps > self.max_steps:
            raise Inconclusive("step budget exceeded")
        if self.deadline is not None and (self.steps & 1023) == 0 and time.time() > self.deadline:
            raise Inconclusive("time budget exceeded (%d steps); hottest: %s" % (self.steps, sorted(self.call_counts.items(), key=lambda kv: -kv[1])[:8]))
        fr = st.top()
        blk = fr.fn["blocks"][fr.block]
        stmts = blk["stmts"]
        while fr.si < len(stmts):
            self.stmt(st, fr, stmts[fr.si])
            fr.si += 1
        return self.terminator(st, fr, blk["term"], base)

    def stmt(self, st, fr, s):
        if "assign" in s:
            place, rv = s["assign"]
            v = self.rvalue(st, fr, rv, s.get("span"))
            if not place["proj"]:
                fr.locals[place["local"]] = v
            else:
                loc = self.place_loc(st, fr, place)
                self.write_loc(st, loc, v)
        elif "set_discr" in s:
            pass

    def rvalue(self, st, fr, rv, span=None):
        if "use" in rv:
            return self.operand(st, fr, rv["use"])
        if "ref" in rv:
            loc = self.place_loc(st, fr, rv["ref"]["place"])
            meta = None
            return RefVal(loc, rv["ref"]["mut"], meta)
        if "addr_of" in rv:
            loc = self.place_loc(st, fr, rv["addr_of"]["place"])
            return RefVal(loc, True)
        if "bin" in rv:
            op, a, b = rv["bin"]
            return self.binop(st, op, self.operand_nc(st, fr, a), self.operand_nc(st, fr, b), span)
        if "bin_ovf" in rv:
            op, a, b = rv["bin_ovf"]
            va, vb = self.operand_nc(st, fr, a), self.operand_nc(st, fr, b)
            if isinstance(va, IntVal) and isinstance(vb, IntVal):
                va, vb = self.reduce_int(st, va), self.reduce_int(st, vb)
                r = self.arith(st, op, va, vb, wrap=False)
                ovf_possible = r.lo < va.ty.min() or r.hi > va.ty.max()
                flag = IntVal(BOOL, 0, 1 if ovf_possible else 0, frozenset([0, 1]) if ovf_possible else frozenset([0]),
                              None, None, r.deps, cmp=("ovf", r, None))
                if not ovf_possible:
                    flag = IntVal.const(BOOL, 0)
                return TupleVal([r, flag])
            d = deps_of(va) | deps_of(vb)
            return TupleVal([top_of(fr.fn["locals"][0]["ty"], d) if False else (IntVal.top(va.ty, deps=d) if isinstance(va, IntVal) else Top(None, d)),
                             IntVal.top(BOOL, deps=d)])
        if "un" in rv:
            op, a = rv["un"]
            v = self.operand_nc(st, fr, a)
            return self.unop(st, op, v)
        if "cast" in rv:
            kind, a, tyj = rv["cast"]
            return self.cast(st, kind, self.operand_nc(st, fr, a), tyj, span)
        if "discr" in rv:
            v = self.read_place(st, fr, rv["discr"])
            if isinstance(v, Choice):
                f0 = v.alts[0][1]
                if isinstance(f0, AdtVal) and f0.variant is not None and all(
                        isinstance(x, AdtVal) and x.path == f0.path and x.variant == f0.variant for _d, x in v.alts):
                    return self.discriminant(st, f0)
                raise NeedSplit(self.place_loc(st, fr, rv["discr"]))
            if isinstance(v, Top) and isinstance(v.ty, dict) and v.ty.get("k") == "adt":
                ch = self.materialise_enum(v)
                if ch is not None:
                    loc = self.place_loc(st, fr, rv["discr"])
                    self.write_loc(st, loc, ch)
                    raise NeedSplit(loc)
            return self.discriminant(st, v)
        if "aggregate" in rv:
            ag = rv["aggregate"]
            fields = [self.operand(st, fr, f) for f in ag["fields"]]
            k = ag["kind"]
            if k == "tuple":
                return TupleVal(fields) if fields else UNIT
            if k == "array":
                return ArrayVal(fields, len(fields), ag.get("elem"))
            if k == "adt":
                return AdtVal(ag["adt"], ag["variant"], fields, "adt", ag.get("variant_name"))
            if k == "closure":
                return AdtVal(ag["def"], 0, fields, "closure")
            return Top(None)
        if "repeat" in rv:
            v = self.operand(st, fr, rv["repeat"][0])
            n = rv["repeat"][1]
            if n is not None and n <= 256:
                return ArrayVal([v] * n, n)
            return ArrayVal(None, n, None, v)
        if "copy_for_deref" in rv:
            return self.read_place(st, fr, rv["copy_for_deref"])
        if "len" in rv:
            v = self.read_place(st, fr, rv["len"])
            return self.len_of(st, v)
        return Top(None)

    def materialise_struct(self, v):
        ty = v.ty
        if ty.get("k") == "tuple":
            return TupleVal([top_of(e, v.deps, v.tags) for e in ty["elems"]])
        if ty.get("k") != "adt":
            return None
        adt = self.prog.adts.get(ty["path"])
        if adt is None or adt["kind"] != "struct":
            return None
        vv = adt["variants"][0]
        # fields of a tagged unknown struct stay distinguishable: each inherits the tags plus ("field", name)
        ft = (lambda f: v.tags | frozenset([("field", f["name"])])) if v.tags else (lambda f: v.tags)
        return AdtVal(ty["path"], 0, [top_of(f["ty"], v.deps, ft(f)) for f in vv["fields"]], vname=vv["name"])

    def materialise_enum(self, v):
        """unknown enum value -> lazy choice over its variants (fields unknown, tags/deps inherited)"""
        ty = v.ty
        path = ty["path"]
        targs = ty.get("args", [])
        d, tags = v.deps, v.tags
        if path == "core::option::Option":
            return Choice([((), AdtVal(path, 0, [], vname="None")), ((), AdtVal(path, 1, [top_of(targs[0] if targs else None, d, tags)], vname="Some"))])
        if path == "core::result::Result":
            return Choice([((), AdtVal(path, 0, [top_of(targs[0] if targs else None, d, tags)], vname="Ok")),
                           ((), AdtVal(path, 1, [top_of(targs[1] if len(targs) > 1 else None, d, tags)], vname="Err"))])
        adt = self.prog.adts.get(path)
        if adt is not None and adt["kind"] == "enum" and len(adt["variants"]) <= 16:
            alts = []
            for vv in adt["variants"]:
                alts.append(((), AdtVal(path, vv["idx"], [top_of(f["ty"], d, tags) for f in vv["fields"]], vname=vv["name"])))
            return Choice(alts)
        return None

    def len_of(self, st, v):
        if isinstance(v, RefVal):
            if v.meta is not None:
                return v.meta
            v = self.read_loc(st, v.loc)
        elems, n, _ = self.seq_elems(v)
        if isinstance(n, IntVal):
            return n
        if n is not None:
            return IntVal.const(USIZE, n)
        if elems is not None:
            return IntVal.const(USIZE, len(elems))
        return IntVal(USIZE, 0, (1 << 63) - 1)

    def unop(self, st, op, v):
        if op == "Not" and isinstance(v, IntVal):
            if v.ty.kind == "bool":
                if v.is_const():
                    return IntVal.const(BOOL, 1 - v.lo)
                bits = None
                if v.bits is not None and v.bits[0] is not None:
                    bits = ((v.bits[0][0], v.bits[0][1] ^ 1),)
                cmp = v.cmp
                if cmp is not None and cmp[0] in _NEG:
                    cmp = (_NEG[cmp[0]], cmp[1], cmp[2])
                else:
                    cmp = ("not", v, None)
                return IntVal(BOOL, 0, 1, frozenset([0, 1]), bits, None, v.deps, cmp=cmp)
            if v.bits is not None and all(e is not None for e in v.bits) and not v.ty.signed:
                r = IntVal.from_bits(v.ty, tuple((e[0], e[1] ^ 1) for e in v.bits))
                r.deps = r.deps | v.deps
                return r
            return IntVal.top(v.ty, deps=v.deps)
        if op == "Neg":
            if isinstance(v, IntVal):
                lin = v.lin.scale(-1) if v.lin is not None else None
                return IntVal(v.ty, -v.hi, -v.lo, frozenset(-x for x in v.vals) if v.vals is not None else None, None, lin, v.deps)
            if isinstance(v, FloatVal):
                return FloatVal(v.bits, const=-v.const if v.const is not None else None,
                                term=("Neg", v.term) if v.term is not None else None, deps=v.deps)
        if op == "PtrMetadata":
            return self.len_of(st, v)
        return Top(None, deps_of(v))

    def discriminant(self, st, v):
        if isinstance(v, AdtVal) and v.variant is not None:
            adt = self.prog.adts.get(v.path)
            d = v.variant
            if adt is not None and adt["kind"] == "enum":
                dv = adt["variants"][v.variant].get("discr")
                if dv is not None:
                    d = dv
            r = IntVal.const(IntTy(64, True), d)
            r.tags = frozenset([("variant_of", v.path)])
            return r
        return IntVal.top(IntTy(64, True), deps=deps_of(v), tags=frozenset([("discr_of_top", ty_str(getattr(v, "ty", None)))]))

    # ----------------------------------------------------------------- terminators
    def _loop_state_determinate(self, st, fr, b):
        """every value the loop at block b of frame fr can observe (live locals, and what they reach through references) is a constant or a
        fixed function of the input atoms, so that equal abstract states are equal concrete states"""
        from ..cfg import live_in
        live = live_in(fr.fn)[b]
        seen = set()

        def ok(v):
            if v is None or isinstance(v, (int, str, bool, float, frozenset)):
                return True
            if isinstance(v, (tuple, list)):
                return all(ok(x) for x in v)
            if isinstance(v, dict):
                return all(ok(x) for x in v.values())
            if isinstance(v, IntVal):
                return v.is_const() or v.lin is not None or (v.bits is not None and all(e is not None for e in v.bits))
            if isinstance(v, FloatVal):
                return v.const is not None or v.term is not None
            if isinstance(v, (AdtVal, TupleVal)):
                return all(ok(f) for f in v.fields)
            if isinstance(v, ArrayVal):
                if v.elems is not None:
                    return all(ok(e) for e in v.elems)
                return False
            if isinstance(v, RefVal):
                if not v.mut:
                    return ok(v.meta)   # shared borrow, live across both visits: the pointee cannot have been written in between
                loc = v.loc
                key = loc[:3] if loc[0] == "L" else loc[:2]
                if key in seen:
                    return ok(v.meta)
                seen.add(key)
                if loc[0] == "H":
                    return ok(st.heap.get(loc[1])) and ok(v.meta)
                try:
                    tgt = st.frame(loc[1]).locals[loc[2]]
                except (KeyError, IndexError, TypeError):
                    return False
                return ok(tgt) and ok(v.meta)
            if isinstance(v, Choice):
                return all(ok(x) for _d, x in v.alts)
            if isinstance(v, Opaque):
                return all(ok(x) for _k, x in v.data)
            return False
        return all(ok(fr.locals[i]) for i in live if i < len(fr.locals))

    def goto(self, st, fr, b):
        fr.block = b
        fr.si = 0
        n = fr.visits.get(b, 0) + 1
        fr.visits[b] = n
        if n == 2:
            # second entry of a block in one activation: the block heads a loop that this path iterates. Recorded so that the
            # termination rule can tell loops the exhaustive exploration went round (and came out of) from loops it never entered
            k = "%s||loop:bb%d|" % (fr.fn["path"], b)
            o = self.obligations.get(k)
            if o is None:
                self.obligations[k] = o = {"visits": 0, "failed": 0, "detail": None, "fn": fr.fn["path"]}
            o["visits"] += 1
        if self.opts.get("loop_once"):
            # analysis of ONE arbitrary iteration of every loop: on first arrival at a loop head everything the loop body may assign is
            # forgotten (so the state stands for the head of any iteration), on the second arrival the path ends
            heads = fr.fn.get("_loop_heads")
            if heads is None:
                cfg = cfg_of(fr.fn)
                heads = {}
                for tail, head in cfg.back_edges():
                    heads.setdefault(head, set()).update(cfg.natural_loop(tail, head))
                fr.fn["_loop_heads"] = heads
            if b in heads:
                if n >= 2:
                    st.status = "covered"
                    return
                assigned = set()
                for bi in heads[b]:
                    bb = fr.fn["blocks"][bi]
                    for s_ in bb["stmts"]:
                        if "assign" in s_:
                            assigned.add(s_["assign"][0]["local"])
                            rv = s_["assign"][1]
                            if isinstance(rv, dict):
                                for k in ("ref", "addr_of"):
                                    if k in rv and rv[k].get("mut", True):
                                        assigned.add(rv[k]["place"]["local"])
                    t_ = bb["term"] or {}
                    if "call" in t_:
                        assigned.add(t_["call"]["dest"]["local"])
                for l_ in assigned:
                    if 0 < l_ < len(fr.locals) and l_ > fr.fn.get("arg_count", 0) and fr.locals[l_] is not None:
                        fr.locals[l_] = top_of(fr.fn["locals"][l_]["ty"])
        if n >= 2 and self.opts.get("loop_subsume"):
            # path-sensitive exploration with subsumption: a path that comes back to a block in a state (frames, reachable heap, path
            # condition) in which the block was already entered continues exactly as that earlier visit did - nothing new to explore
            try:
                key = (st.live_fp(b), st.pc.fp())
                hash(key)
            except TypeError:
                key = None
            if key is not None:
                seen = fr.visits.get(("seen", b))
                if seen is None:
                    seen = set()
                    fr.visits[("seen", b)] = seen
                if key in seen:
                    st.status = "covered"
                    return
                seen.add(key)
        if n >= 8:
            # non-progress detection: the complete state (all frames, reachable heap, path condition) at this block is identical to the
            # state at its previous visit and the path did not fork in between (no outcome of the iteration depended on anything but
            # the state, e.g. on what the environment returned) -> the program repeats the same iteration forever on every input of this path
            try:
                fpv = (st.visible_fp(len(st.frames)), len(st.pc.log), st.nd)
                hash(fpv)
            except TypeError:
                fpv = None
            if fpv is not None and fr.visits.get(("fp", b)) == fpv and not self._loop_state_determinate(st, fr, b):
                fpv = None   # equal abstract states that may stand for different concrete ones (unknown values): no verdict from this test
            if fpv is not None:
                if fr.visits.get(("fp", b)) == fpv:
                    blk = fr.fn["blocks"][b]
                    st.events.append({"kind": "hang", "fn": fr.fn["path"], "block": b,
                                      "facts_len": len(st.pc.log)})
                    st.status = "diverged"
                    sp = {}
                    for s_ in blk["stmts"]:
                        if isinstance(s_, dict) and s_.get("span"):
                            sp = s_["span"]
                            break
                    if not sp:
                        for tv in (blk.get("term") or {}).values():
                            if isinstance(tv, dict) and tv.get("span"):
                                sp = tv["span"]
                    self.obligation(st, fr, "%s|%s:%s|hang|" % (fr.fn["path"], sp.get("file", "?"), (sp.get("lo") or ["?"])[0]), False,
                                    "the loop through bb%d repeats with a state identical to the previous iteration (no progress): it never ends" % b)
                    return
                fr.visits[("fp", b)] = fpv
        if n > self.opts.get("max_block_visits", 300):
            raise Inconclusive("loop bound exceeded in %s bb%d" % (fr.fn["path"], b))

    def terminator(self, st, fr, term, base):
        if "goto" in term:
            self.goto(st, fr, term["goto"])
            return None
        if "switch" in term:
            return self.switch(st, fr, term["switch"], base)
        if "return" in term:
            return self.do_return(st, fr)
        if "call" in term:
            return self.do_call(st, fr, term["call"], base)
        if "assert" in term:
            return self.do_assert(st, fr, term["assert"])
        if "drop" in term:
            self.goto(st, fr, term["drop"]["target"])
            return None
        if "unreachable" in term:
            st.status = "diverged"
            return None
        if "resume" in term or "abort" in term:
            st.status = "diverged"
            return None
        raise Inconclusive("unsupported terminator %r" % (list(term.keys()),))

    def do_return(self, st, fr):
        rv = fr.locals[0]
        if rv is None:
            rv = top_of(fr.fn["locals"][0]["ty"])
        st.frames.pop()
        if fr.tag is not None:
            st.events.append({"kind": "tagged_return", "tag": fr.tag, "fn": fr.fn["path"], "value": rv, "facts_len": len(st.pc.log)})
        tr = self.opts.get("trace_returns")
        if tr and fr.fn["path"] in tr:
            st.events.append({"kind": "fn_return", "fn": fr.fn["path"], "value": rv})
        if fr.on_return is not None:
            return fr.on_return(self, st, rv)
        st.retval = rv
        if st.frames and fr.dest is not None:
            self.write_loc(st, fr.dest, rv)
            caller = st.top()
            if fr.target == "stay":
                pass
            elif fr.target is None:
                st.status = "diverged"
            else:
                self.goto(st, caller, fr.target)
        return None

    def run_nested(self, st, fn, args):
        """run fn(args) to completion from `st` (which stays at its current statement); outcomes with identical
        visible state are merged. Returns [(state, return value)]"""
        depth = len(st.frames)
        s = st.copy()
        cell = s.new_heap(None)
        saved_stop = s.stop
        s.stop = None
        self.call_counts[fn["path"]] = self.call_counts.get(fn["path"], 0) + 1
        self.call_fn(s, fn, args, dest_loc=cell, target="stay")
        outs = self.explore(s, depth)
        for o in outs:
            o.stop = saved_stop
        if self.opts.get("merge_returns", True) and len(outs) > 1:
            st_ref = st.copy()
            st_ref.heap[cell[1]] = None
            outs = self.merge_outcomes(st_ref, outs, depth, cell)
        res = []
        for o in outs:
            if o.status != "run" or len(o.frames) != depth:
                res.append((o, None))
                continue
            res.append((o, o.heap.get(cell[1])))
        return res

    def do_assert(self, st, fr, a):
        cond = self.operand(st, fr, a["cond"])
        expected = 1 if a["expected"] else 0
        if a["kind"] in ("MisalignedPointerDereference", "NullPointerDereference"):
            # compiler-inserted debug checks on raw pointers (vec!/Box internals): trusted
            self.goto(st, fr, a["target"])
            return None
        key = self.site_key(fr.fn, a.get("span"), "assert:" + a["kind"])
        ok = isinstance(cond, IntVal) and cond.is_const() and cond.lo == expected
        if not ok and isinstance(cond, IntVal) and cond.cmp is not None and cond.cmp[0] != "ovf":
            # try to decide through branch feasibility
            feas = self.feasible_outcomes(st, cond)
            if feas == {expected}:
                ok = True
        detail = None
        if not ok:
            detail = self.describe_assert(st, fr, a)
        self.obligation(st, fr, key, ok, detail)
        if isinstance(cond, IntVal) and cond.is_const() and cond.lo != expected:
            st.status = "panicked"
            return None
        # continue assuming the assertion holds
        if isinstance(cond, IntVal) and not cond.is_const():
            self.assume_bool(st, cond, expected)
            if a["kind"] == "Overflow":
                self.refine_after_overflow_check(st, fr, a)
        self.goto(st, fr, a["target"])
        return None

    def refine_after_overflow_check(self, st, fr, a):
        # the checked tuple's value component is within the type on the continuing path
        c = a["cond"]
        pl = c.get("move") or c.get("copy")
        if pl and pl["proj"] and "field" in pl["proj"][-1]:
            tv = fr.locals[pl["local"]]
            if isinstance(tv, TupleVal) and isinstance(tv.fields[0], IntVal):
                v = tv.fields[0]
                nv = v.with_(lo=max(v.lo, v.ty.min()), hi=min(v.hi, v.ty.max()))
                if nv.vals is not None:
                    nv.vals = frozenset(x for x in nv.vals if nv.lo <= x <= nv.hi)
                fr.locals[pl["local"]] = TupleVal([nv, IntVal.const(BOOL, 0)])

    def describe_assert(self, st, fr, a):
        d = a.get("detail") or {}
        out = {"kind": a["kind"]}
        for k in ("a", "b", "len", "index"):
            if k in d and isinstance(d[k], dict):
                try:
                    out[k] = repr(self.operand(st, fr, d[k]))
                except Exception:
                    out[k] = "?"
        if "op" in d:
            out["op"] = d["op"]
        return out

    def site_key(self, fn, span, what):
        if span:
            if span.get("exp") and span.get("cs_file"):
                return "%s|%s:%s:%s|%s|%s" % (fn["path"], span["cs_file"], span["cs_lo"][0], span["cs_lo"][1], what,
                                              span.get("outer_mname") or span.get("mname") or "")
            return "%s|%s:%s:%s|%s|" % (fn["path"], span["file"], span["lo"][0], span["lo"][1], what)
        return "%s|?|%s|" % (fn["path"], what)

    # ----------------------------------------------------------------- branching
    def feasible_outcomes(self, st, cond):
        """set of possible truth values {0,1} of a bool IntVal under the current state"""
        if cond.is_const():
            return {cond.lo}
        outs = set()
        for want in (0, 1):
            s2 = st.copy()
            if self.assume_bool(s2, cond, want):
                outs.add(want)
        return outs

    def assume_bool(self, st, cond, want):
        """refine state assuming bool value == want; returns False if infeasible"""
        if cond.is_const():
            return cond.lo == want
        if cond.bits is not None and cond.bits[0] is not None:
            e = st.pc.reduce(cond.bits[0])
            if e[0] == 0:
                return e[1] == want
            if not st.pc.add_lin(e[0], e[1] ^ want):
                return False
            self.refresh_state(st)
            return True
        c = cond.cmp
        if c is None:
            return True
        op, a, b = c
        if op == "not":
            return self.assume_bool(st, a, 1 - want)
        if op == "ovf":
            return True
        if isinstance(op, str) and op.startswith("dur_"):
            st.pc.add_guard({"op": op, "want": want, "a": repr(a), "b": repr(b), "deps": frozenset()})
            return True
        if op in _NEG and not want:
            op = _NEG[op]
        if not isinstance(a, IntVal) or not isinstance(b, IntVal):
            if isinstance(a, FloatVal) or isinstance(b, FloatVal):
                st.pc.add_guard({"op": op, "a": repr(a), "b": repr(b), "float": True, "deps": deps_of(a) | deps_of(b),
                                 "a_term": getattr(a, "term", None), "b_term": getattr(b, "term", None),
                                 "a_const": getattr(a, "const", None), "b_const": getattr(b, "const", None)})
            return True
        a = self.current(st, a)
        b = self.current(st, b)
        return self.assume_cmp(st, op, a, b)

    def current(self, st, v):
        """latest refined version of a value (by vid) if it still lives in the state, else reduce"""
        return self.reduce_int(st, st_lookup_vid(st, v))

    def assume_cmp(self, st, op, a, b):
        # exact handling through bits when equality with a constant
        if op == "Eq" and b.is_const() and a.bits is not None and all(e is not None for e in a.bits):
            c = b.cval() & ((1 << a.ty.bits) - 1) if b.cval() >= 0 or not a.ty.signed else None
            if c is not None:
                for k, e in enumerate(a.bits):
                    want = (c >> k) & 1
                    e = st.pc.reduce(e)
                    if e[0] == 0:
                        if e[1] != want:
                            return False
                    elif not st.pc.add_lin(e[0], e[1] ^ want):
                        return False
                self.refresh_state(st)
                return True
        if op == "Eq" and a.is_const() and not b.is_const():
            return self.assume_cmp(st, "Eq", b, a)
        # interval / set refinement
        ra = self.refine_range(op, a, b)
        rb = self.refine_range(_SWAP[op], b, a)
        if ra is None or rb is None:
            return False
        na, nb = ra, rb
        recorded = False
        if na is not a:
            self.replace_vid(st, a.vid, na)
            if a.bits is not None and all(e is not None for e in a.bits) and not a.is_const() and na.vals is not None and not a.ty.signed:
                sb = a.sym_bits()
                if sb and len(sb) <= 12:
                    if not st.pc.add_vals(a.bits, na.vals):
                        return False
                    recorded = True
        if nb is not b:
            self.replace_vid(st, b.vid, nb)
            if b.bits is not None and all(e is not None for e in b.bits) and not b.is_const() and nb.vals is not None and not b.ty.signed:
                sb = b.sym_bits()
                if sb and len(sb) <= 12:
                    if not st.pc.add_vals(b.bits, nb.vals):
                        return False
                    recorded = True
        if not recorded and not (a.is_const() and b.is_const()):
            # record an opaque guard for later tabulation
            g = {"op": op, "a": _descr(a), "b": _descr(b), "deps": a.deps | b.deps}
            st.pc.add_guard(g)
        return True

    def refine_range(self, op, a, b):
        """refine a under  a op b ; returns new IntVal, a itself, or None if infeasible"""
        lo, hi = a.lo, a.hi
        vals = a.vals
        if vals is None and hi - lo <= 255 and not a.is_const():
            vals = frozenset(range(lo, hi + 1))
        if op == "Eq":
            lo, hi = max(lo, b.lo), min(hi, b.hi)
            if b.vals is not None and vals is not None:
                vals = vals & b.vals
            elif b.is_const() and vals is not None:
                vals = vals & frozenset([b.lo])
        elif op == "Ne":
            if b.is_const():
                if vals is not None:
                    vals = vals - frozenset([b.lo])
                if lo == b.lo:
                    lo += 1
                if hi == b.lo:
                    hi -= 1
        elif op == "Lt":
            hi = min(hi, b.hi - 1)
        elif op == "Le":
            hi = min(hi, b.hi)
        elif op == "Gt":
            lo = max(lo, b.lo + 1)
        elif op == "Ge":
            lo = max(lo, b.lo)
        if vals is not None:
            vals = frozenset(x for x in vals if lo <= x <= hi)
            if not vals:
                return None
            lo, hi = min(vals), max(vals)
        if lo > hi:
            return None
        if lo == a.lo and hi == a.hi and vals == a.vals:
            return a
        n = a.with_(lo=lo, hi=hi, vals=vals)
        if lo == hi:
            c = IntVal.const(a.ty, lo)
            c.vid = a.vid
            c.deps = a.deps
            c.tags = a.tags
            if a.lin is not None and not a.lin.is_const():
                # keep symbolic identity: value pinned by guard
                pass
            return c
        return n

    def replace_vid(self, st, vid, nv):
        def rep(v):
            if isinstance(v, IntVal):
                return nv if v.vid == vid else v
            if isinstance(v, TupleVal):
                fs = [rep(f) for f in v.fields]
                return TupleVal(fs) if any(x is not y for x, y in zip(fs, v.fields)) else v
            if isinstance(v, AdtVal):
                fs = [rep(f) for f in v.fields]
                return AdtVal(v.path, v.variant, fs, v.kind, v.vname) if any(x is not y for x, y in zip(fs, v.fields)) else v
            if isinstance(v, ArrayVal) and v.elems is not None:
                es = [rep(f) for f in v.elems]
                return ArrayVal(es, v.n, v.elem_ty) if any(x is not y for x, y in zip(es, v.elems)) else v
            return v
        for f in st.frames:
            for i, v in enumerate(f.locals):
                if v is not None:
                    f.locals[i] = rep(v)
        for k, v in list(st.heap.items()):
            st.heap[k] = rep(v)

    def refresh_state(self, st):
        """after new linear constraints: nothing eager; IntVals are reduced lazily at use"""
        return

    def switch(self, st, fr, sw, base):
        d = self.operand(st, fr, sw["discr"])
        if isinstance(d, Choice):
            raise NeedSplit(self.place_loc(st, fr, (sw["discr"].get("move") or sw["discr"].get("copy"))))
        targets = sw["targets"]
        otherwise = sw["otherwise"]
        if not isinstance(d, IntVal):
            # unknown discriminant: all targets feasible
            outs = []
            for _v, b in targets:
                s = st.copy()
                self.goto(s, s.top(), b)
                outs.append(s)
            s = st.copy()
            self.goto(s, s.top(), otherwise)
            outs.append(s)
            return outs
        d = self.current(st, d) if d.cmp is None else d
        if self.opts.get("taint_tags") and not d.is_const():
            tg = set()
            for x in (d,) + tuple(y for y in (d.cmp[1:] if d.cmp else ()) if isinstance(y, IntVal)):
                for t in x.tags:
                    if isinstance(t, tuple) and t and (t in self.opts["taint_tags"] or t[:2] in self.opts["taint_tags"]):
                        tg.add(t)
            if tg:
                self.event(st, "tainted_branch", fn=fr.fn["path"], tags=tuple(sorted(tg, key=repr)), span=sw.get("span"),
                           chain=tuple(f.fn["path"] for f in st.frames))
        if d.is_const():
            c = d.lo
            for v, b in targets:
                if _switch_eq(d.ty, c, v):
                    self.goto(st, fr, b)
                    return None
            self.goto(st, fr, otherwise)
            return None
        if d.ty.kind == "bool" or d.cmp is not None:
            # two-way branch
            tmap = {v: b for v, b in targets}
            b_false = tmap.get(0, otherwise)
            b_true = otherwise if 0 in tmap else tmap.get(1, otherwise)
            if 1 in tmap and 0 not in tmap:
                b_true, b_false = tmap[1], otherwise
            # try gated (mux) join for single-bit conditions
            if d.bits is not None and d.bits[0] is not None and self.opts.get("mux_join", True):
                e = st.pc.reduce(d.bits[0])
                if e[0] == 0:
                    self.goto(st, fr, b_true if e[1] else b_false)
                    return None
                ctags = frozenset()
                if d.cmp is not None:
                    for x in d.cmp[1:]:
                        if isinstance(x, IntVal):
                            ctags |= frozenset(t for t in x.tags if isinstance(t, tuple) and t and t[0] == "rd")
                merged = self.try_mux(st, fr, e, b_true, b_false, base, ctags)
                if merged is not None:
                    return merged
            outs = []
            for want, b in ((1, b_true), (0, b_false)):
                s = st.copy()
                if self.assume_bool(s, d, want):
                    self.goto(s, s.top(), b)
                    outs.append(s)
            return outs
        # multiway on an integer
        outs = []
        covered = set()
        dd = d
        if dd.vals is None and dd.hi - dd.lo <= 255:
            dd = dd.with_(vals=frozenset(range(dd.lo, dd.hi + 1)))
        # values that share a target block (or-patterns such as `1 | 2 | 3`) form ONE branch whose value is refined to the set,
        # exactly like a range pattern would be - not one path per value with the value turned into a constant
        groups = {}
        order = []
        for v, b in targets:
            sv = _switch_val(dd.ty, v)
            covered.add(sv)
            if sv < dd.lo or sv > dd.hi or (dd.vals is not None and sv not in dd.vals):
                continue
            if b not in groups:
                groups[b] = []
                order.append(b)
            groups[b].append(sv)
        for b in order:
            svs = groups[b]
            s = st.copy()
            if len(svs) == 1 or d.bits is None or not all(e is not None for e in d.bits) or d.ty.signed:
                for sv in svs:
                    s1 = st.copy() if len(svs) > 1 else s
                    if self.assume_cmp(s1, "Eq", self.current(s1, d), IntVal.const(d.ty, sv)):
                        self.goto(s1, s1.top(), b)
                        outs.append(s1)
                continue
            grp = frozenset(svs)
            nv = d.with_(vals=grp, lo=min(grp), hi=max(grp))
            self.replace_vid(s, d.vid, nv)
            if s.pc.add_vals(d.bits, grp):
                self.goto(s, s.top(), b)
                outs.append(s)
        # otherwise
        if dd.vals is not None:
            rest = dd.vals - covered
            if rest:
                s = st.copy()
                nv = d.with_(vals=rest, lo=min(rest), hi=max(rest))
                self.replace_vid(s, d.vid, nv)
                if d.bits is not None and all(e is not None for e in d.bits) and not d.ty.signed:
                    s.pc.add_vals(d.bits, rest)
                self.goto(s, s.top(), otherwise)
                outs.append(s)
        else:
            s = st.copy()
            s.pc.add_guard({"op": "notin", "a": _descr(d), "b": sorted(covered), "deps": d.deps})
            self.goto(s, s.top(), otherwise)
            outs.append(s)
        return outs

    def try_mux(self, st, fr, e, b_true, b_false, base, ctags=frozenset()):
        """explore both arms up to the immediate post-dominator and merge them with a mux on bit e"""
        cfg = cfg_of(fr.fn)
        ipd = cfg.ipdom().get(fr.block)
        if ipd is None or ipd < 0:
            return None
        depth = len(st.frames)
        arms = []
        for want, b in ((1, b_true), (0, b_false)):
            s = st.copy()
            if not s.pc.add_lin(e[0], e[1] ^ want, record=True):
                arms.append([])
                continue
            if b == ipd:
                s.top().block = b
                s.top().si = 0
                arms.append([s])
                continue
            self.goto(s, s.top(), b)
            s.stop = (depth, ipd)
            saved_stop = st.stop
            res = self.explore(s, depth - 1)
            for r in res:
                r.stop = saved_stop
            arms.append(res)
        t, f = arms
        if len(t) == 1 and len(f) == 1 and t[0].status == "run" and f[0].status == "run" \
                and len(t[0].frames) == depth and len(f[0].frames) == depth \
                and t[0].top().block == ipd and f[0].top().block == ipd:
            self._mux_tags = ctags
            m = self.mux_states(st, e, t[0], f[0])
            if m is not None:
                m.top().block = ipd
                m.top().si = 0
                m.stop = st.stop
                return [m]
        outs = []
        for r in t + f:
            outs.append(r)
        return outs

    def mux_states(self, st0, e, t, f):
        """merge two states that differ only in values; pc is restored to the pre-branch condition"""
        if len(t.frames) != len(f.frames):
            return None
        m = t.copy()
        m.pc = st0.pc.copy()
        # events/obligations: union (events of both arms are kept in order t then f-only)
        m.events = list(t.events) + [x for x in f.events[len(st0.events):]]
        for i, (ft, ff) in enumerate(zip(t.frames, f.frames)):
            if ft.id != ff.id or ft.block != ff.block and i < len(t.frames) - 1:
                return None
            f0 = st0.frames[i] if i < len(st0.frames) and st0.frames[i].id == ft.id else None
            live = None
            if i == len(t.frames) - 1:
                from ..cfg import live_in
                live = live_in(ft.fn)[ft.block] if ft.block < len(ft.fn["blocks"]) else None
            for j, (vt, vf) in enumerate(zip(ft.locals, ff.locals)):
                v0 = f0.locals[j] if f0 is not None and j < len(f0.locals) else None
                mv = self._mux_slot(e, v0, vt, vf)
                if mv is _FAIL:
                    if live is not None and j not in live:
                        # a temporary that is dead at the join (it will be overwritten before it is read again): its stale content
                        # differs between the arms, which does not matter
                        mv = None
                    else:
                        return None
                m.frames[i].locals[j] = mv
        keys = set(t.heap) | set(f.heap)
        for k in keys:
            mv = self._mux_slot(e, st0.heap.get(k), t.heap.get(k), f.heap.get(k))
            if mv is _FAIL:
                return None
            m.heap[k] = mv
        m.next_id = max(t.next_id, f.next_id)
        m.atoms_next = max(t.atoms_next, f.atoms_next)
        return m

    def _mux_slot(self, e, v0, vt, vf):
        """a slot both arms only *refined* (same value identity as before the branch, narrowed under the arm's assumptions) keeps its
        pre-branch value: the refinements were consequences of facts that the merged state no longer carries"""
        if isinstance(v0, IntVal) and isinstance(vt, IntVal) and isinstance(vf, IntVal) and v0.vid == vt.vid == vf.vid:
            return v0
        return self.mux_val(e, vt, vf)

    def mux_val(self, e, vt, vf):
        if vt is vf:
            return vt
        if vt is None or vf is None:
            return vt if vf is None else vf
        if fp(vt) == fp(vf):
            return vt
        if isinstance(vt, IntVal) and isinstance(vf, IntVal) and vt.ty.key() == vf.ty.key():
            bits = None
            if vt.bits is not None and vf.bits is not None:
                bits = []
                # e = XOR(mask) ^ c; p is an atom of e. Each arm's bit may still mention e's atoms (a value read before the branch,
                # or refined under the arm's assumption): rewrite it as alpha*e ^ rest with rest free of p, evaluate the true arm at
                # e = 1 and the false arm at e = 0, and the mux is affine exactly when the two differ by a constant k: rest_f ^ k*e
                pbit = 1 << (e[0].bit_length() - 1)

                def split_e(z):
                    if z[0] & pbit:
                        return 1, (z[0] ^ e[0], z[1] ^ e[1])
                    return 0, z
                for x, y in zip(vt.bits, vf.bits):
                    if x is None or y is None:
                        bits.append(None)
                    elif x == y and not (x[0] & pbit):
                        bits.append(x)
                    else:
                        at, rt = split_e(x)
                        _af, rf = split_e(y)
                        xt1 = (rt[0], rt[1] ^ at)       # true arm at e = 1
                        xf0 = rf                        # false arm at e = 0
                        dx = bx_xor(xt1, xf0)
                        if dx[0] == 0:
                            bits.append(bx_xor(xf0, e) if dx[1] else xf0)
                        else:
                            bits.append(None)
                bits = tuple(bits)
            lin = None
            lt = vt.lin if vt.lin is not None else None
            lf = vf.lin if vf.lin is not None else None
            if lt is not None and lf is not None:
                d = lt.add(lf, -1)
                if d.is_const():
                    # vf + d*e   (e is 0/1 valued; e = x ^ c)
                    k = d.b
                    base = (e[0], 0)
                    if e[1]:
                        lin = lf.add(Lin(k, {base: -k}))
                    else:
                        lin = lf.add(Lin(0, {base: k}))
            if bits is not None and all(b is not None for b in bits) and not vt.ty.signed:
                r = IntVal.from_bits(vt.ty, bits)
                r.deps = r.deps | vt.deps | vf.deps | frozenset(mask_atoms(e[0]))
                r.tags = vt.tags | vf.tags | getattr(self, "_mux_tags", frozenset())
                return r
            if lin is not None:
                lo, hi = lin.range()
                return IntVal(vt.ty, max(lo, min(vt.lo, vf.lo)), min(hi, max(vt.hi, vf.hi)), None, bits, lin,
                              vt.deps | vf.deps | frozenset(mask_atoms(e[0])), tags=vt.tags | vf.tags | getattr(self, "_mux_tags", frozenset()))
            return _FAIL
        if isinstance(vt, TupleVal) and isinstance(vf, TupleVal) and len(vt.fields) == len(vf.fields):
            fs = [self.mux_val(e, x, y) for x, y in zip(vt.fields, vf.fields)]
            if any(x is _FAIL for x in fs):
                return _FAIL
            return TupleVal(fs)
        if isinstance(vt, AdtVal) and isinstance(vf, AdtVal) and vt.path == vf.path and vt.variant == vf.variant and len(vt.fields) == len(vf.fields):
            fs = [self.mux_val(e, x, y) for x, y in zip(vt.fields, vf.fields)]
            if any(x is _FAIL for x in fs):
                return _FAIL
            return AdtVal(vt.path, vt.variant, fs, vt.kind, vt.vname)
        return _FAIL

    # ----------------------------------------------------------------- calls
    def do_call(self, st, fr, call, base):
        callee = call["callee"]
        args = [self.operand(st, fr, a) for a in call["args"]]
        dest = self.place_loc(st, fr, call["dest"])
        target = call["target"]
        if "indirect" in callee:
            fv = self.operand(st, fr, callee["indirect"])
            if isinstance(fv, Opaque) and fv.kind == "fnptr":
                callee = {"path": fv.get("path"), "resolved": fv.get("path"), "full": fv.get("path"), "targs": [], "closure_defs": [],
                          "trait": None, "self_ty": None}
            else:
                return self.unknown_call(st, fr, {"path": "<indirect>", "full": "<indirect>"}, args, dest, target, call)
        path = callee.get("resolved") or callee["path"]
        stub = self.opts.get("stubs", {}).get(path) if self.opts.get("stubs") else None
        if stub is not None:
            from .summaries import CallCtx
            return stub(CallCtx(self, st, fr, callee, args, dest, target, call, base))
        # 1. external summaries first when they explicitly claim the callee
        if self.summaries is not None:
            r = self.summaries.dispatch(self, st, fr, callee, args, dest, target, call, base)
            if r is not NotImplemented:
                return r
        fn = self.prog.fns.get(path)
        if fn is not None:
            if fn["kind"] == "closure" and callee["path"].startswith("core::ops::function::Fn"):
                # rust-call ABI: (env, (a, b, ..)) -> env, a, b, ..
                env = args[0]
                rest = list(args[1].fields) if len(args) > 1 and isinstance(args[1], TupleVal) else list(args[1:])
                envty = fn["locals"][1]["ty"]
                if envty.get("k") == "ref" and not isinstance(env, RefVal):
                    env = RefVal(st.new_heap(env), envty.get("mut", False))
                elif envty.get("k") != "ref" and isinstance(env, RefVal):
                    env = self.read_loc(st, env.loc)
                args = [env] + rest
            return self.inline_call(st, fr, fn, args, dest, target, base, call)
        return self.unknown_call(st, fr, callee, args, dest, target, call)

    def finish_call(self, st, dest, target, val):
        """write the result of a summarised call and move on"""
        if dest is not None:
            self.write_loc(st, dest, val)
        if target is None:
            st.status = "diverged"
            return None
        if target == "stay":
            return None         # synthetic call issued by a summary: the caller continues from the result cell
        self.goto(st, st.top(), target)
        return None

    def unknown_call(self, st, fr, callee, args, dest, target, call):
        name = callee.get("resolved") or callee.get("full") or callee["path"]
        self.unsummarised[name] = self.unsummarised.get(name, 0) + 1
        d = frozenset()
        for a in args:
            d |= deps_of(a)
            # havoc &mut arguments
            if isinstance(a, RefVal) and a.mut:
                try:
                    old = self.read_loc(st, a.loc)
                    self.write_loc(st, a.loc, Top(getattr(old, "ty", None), deps_of(old) | d))
                except Exception:
                    pass
        rty = fr.fn["locals"][call["dest"]["local"]]["ty"] if not call["dest"]["proj"] else None
        self.event(st, "unsummarised", callee=name, fn=fr.fn["path"])
        return self.finish_call(st, dest, target, top_of(rty, d, frozenset([("ret_of", name)])))

    def inline_call(self, st, fr, fn, args, dest, target, base, call):
        if len(st.frames) > self.call_stack_limit:
            raise Inconclusive("call depth exceeded at %s" % fn["path"])
        for f in st.frames:
            if f.fn is fn and self.opts.get("no_recursion", True):
                raise Inconclusive("recursion through %s" % fn["path"])
        depth = len(st.frames)
        self.call_counts[fn["path"]] = self.call_counts.get(fn["path"], 0) + 1
        s = st.copy()
        saved_stop = s.stop
        s.stop = None
        self.call_fn(s, fn, args, dest_loc=dest, target=target)
        outs = self.explore(s, depth)
        for o in outs:
            o.stop = saved_stop
        if not self.opts.get("merge_returns", True) or len(outs) <= 1:
            return outs
        return self.merge_outcomes(st, outs, depth, dest)

    def import_value(self, m, o, v):
        """copy heap cells referenced by v from state o into state m (fresh ids)"""
        refs = []
        heap_refs(v, refs)
        if not refs:
            return v
        mapping = {}

        def f(i):
            if i not in mapping:
                ni = m.next_id
                m.next_id += 1
                mapping[i] = ni
                cell = o.heap.get(i)
                m.heap[ni] = None
                m.heap[ni] = map_heap_refs(cell, f) if cell is not None else None
            return mapping[i]
        return map_heap_refs(v, f)

    def merge_outcomes(self, st0, outs, depth, dest):
        """group returned outcomes whose caller-visible state (except the destination) is identical"""
        groups = {}
        order = []
        passthrough = []
        n0 = len(st0.pc.log)
        for o in outs:
            if o.status != "run" or len(o.frames) != depth:
                passthrough.append(o)
                continue
            # temporarily blank the destination
            try:
                rv = self.read_loc(o, dest)
            except NeedSplit:
                passthrough.append(o)
                continue
            self.write_loc(o, dest, None)
            key = (o.visible_fp(depth), o.top().block)
            self.write_loc(o, dest, rv)
            delta = tuple(o.pc.log[n0:])
            try:
                hash(key)
            except TypeError:
                def find(x, path=""):
                    if isinstance(x, dict):
                        raise Inconclusive("unhashable fingerprint at %s: %r" % (path, x))
                    if isinstance(x, (tuple, list)):
                        for i, y in enumerate(x):
                            find(y, path + "/%d" % i)
                find(key)
                raise
            if key not in groups:
                groups[key] = []
                order.append(key)
            groups[key].append((o, delta, rv))
        res = []
        for key in order:
            g = groups[key]
            if len(g) == 1:
                res.append(g[0][0])
                continue
            # if all return values identical and deltas irrelevant -> still need deltas: keep Choice
            m = g[0][0].copy()
            m.pc = st0.pc.copy()
            alts = []
            for gi, (o, delta, rv) in enumerate(g):
                if gi > 0:
                    rv = self.import_value(m, o, rv)
                if isinstance(rv, Choice):
                    for d2, v2 in rv.alts:
                        alts.append((delta + tuple(d2), v2))
                else:
                    alts.append((delta, rv))
            m.oblig = []
            ne = len(st0.events)
            seen_ev = set(id(e) for e in m.events[ne:])
            for o, _d, _r in g[1:]:
                for e in o.events[ne:]:
                    r = id(e)
                    if r not in seen_ev:
                        seen_ev.add(r)
                        m.events.append(e)
            self.write_loc(m, dest, Choice(alts))
            m.next_id = max(o.next_id for o, _d, _r in g)
            m.atoms_next = max(o.atoms_next for o, _d, _r in g)
            res.append(m)
        return res + passthrough


def collapse_choice(alts):
    """Choice of alternatives, or the common value when all alternatives agree (deltas dropped: sound)"""
    f0 = fp(alts[0][1])
    if all(fp(x) == f0 for _d, x in alts[1:]):
        if all(not d for d, _x in alts):
            return alts[0][1]
        if isinstance(alts[0][1], Choice):
            return alts[0][1] if False else Choice([((("or", tuple(tuple(d) for d, _x in alts)),) + tuple(d2), x2) for d2, x2 in alts[0][1].alts])
        return Choice([((("or", tuple(tuple(d) for d, _x in alts)),), alts[0][1])])
    flat = []
    for d, x in alts:
        if isinstance(x, Choice):
            for d2, x2 in x.alts:
                flat.append((tuple(d) + tuple(d2), x2))
        else:
            flat.append((d, x))
    return Choice(flat)


_FAIL = object()
_CMP = {"Eq": lambda x, y: x == y, "Ne": lambda x, y: x != y, "Lt": lambda x, y: x < y, "Le": lambda x, y: x <= y,
        "Gt": lambda x, y: x > y, "Ge": lambda x, y: x >= y}
_NEG = {"Eq": "Ne", "Ne": "Eq", "Lt": "Ge", "Ge": "Lt", "Gt": "Le", "Le": "Gt"}
_SWAP = {"Eq": "Eq", "Ne": "Ne", "Lt": "Gt", "Gt": "Lt", "Le": "Ge", "Ge": "Le"}


def _name_of(v):
    for t in v.tags:
        if isinstance(t, tuple) and len(t) == 2 and t[0] == "name":
            return t[1]
    return None


def _f64(bits, width):
    import struct
    if width == 32:
        return struct.unpack("<f", struct.pack("<I", bits & 0xFFFFFFFF))[0]
    return struct.unpack("<d", struct.pack("<Q", bits))[0]


def _wrap(ty, v):
    m = (1 << ty.bits) - 1
    v &= m
    if ty.signed and v >= (1 << (ty.bits - 1)):
        v -= 1 << ty.bits
    return v


def _switch_val(ty, v):
    """SwitchInt target values are raw u128 bit patterns"""
    if ty.signed and v >= (1 << (ty.bits - 1)):
        return v - (1 << ty.bits)
    return v


def _switch_eq(ty, c, v):
    return _switch_val(ty, v) == c


def _bitop(op, x, y):
    if x is None or y is None:
        # partial knowledge with constants
        k = x if x is not None else y
        if k is not None and k[0] == 0:
            if op == "BitAnd" and k[1] == 0:
                return ZERO
            if op == "BitOr" and k[1] == 1:
                return ONE
        return None
    if op == "BitXor":
        return (x[0] ^ y[0], x[1] ^ y[1])
    if op == "BitAnd":
        if x[0] == 0:
            return y if x[1] else ZERO
        if y[0] == 0:
            return x if y[1] else ZERO
        if x == y:
            return x
        if x[0] == y[0]:
            return ZERO  # x and not x
        return None
    if op == "BitOr":
        if x[0] == 0:
            return ONE if x[1] else y
        if y[0] == 0:
            return ONE if y[1] else x
        if x == y:
            return x
        if x[0] == y[0]:
            return ONE
        return None
    return None


def _lin_to_bits(lin, w):
    """if lin is a plain bit-vector form (distinct power-of-two coefficients, non-negative), return bits"""
    if lin.b < 0:
        return None
    bits = [ZERO] * w
    used = 0
    for e, c in lin.terms.items():
        if c <= 0 or c & (c - 1):
            return None
        k = c.bit_length() - 1
        if k >= w or (used >> k) & 1:
            return None
        used |= 1 << k
        bits[k] = e
    b = lin.b
    k = 0
    while b:
        if b & 1:
            if k >= w or (used >> k) & 1:
                return None
            bits[k] = ONE
        b >>= 1
        k += 1
    return tuple(bits)


def _descr(v):
    if isinstance(v, IntVal):
        if v.is_const():
            return {"const": v.lo}
        nm = _name_of(v)
        if nm is not None and v.lin is None:
            return {"name": nm}
        if v.lin is not None:
            return {"lin": v.lin}
        if v.bits is not None and all(e is not None for e in v.bits):
            return {"lin": Lin.from_bits(v.bits)}
        return {"opaque": repr(v)}
    return {"opaque": repr(v)}


def st_lookup_vid(st, v):
    if not isinstance(v, IntVal):
        return v
    vid = v.vid
    best = v

    def look(x):
        nonlocal best
        if isinstance(x, IntVal):
            if x.vid == vid:
                best = x
                return True
            return False
        if isinstance(x, (TupleVal, AdtVal)):
            for f in x.fields:
                if look(f):
                    return True
        return False
    for f in reversed(st.frames):
        for x in f.locals:
            if x is not None and look(x):
                return best
    return best
