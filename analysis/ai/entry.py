"""Entry points for the abstract interpreter."""
from .interp import Interp, State, Inconclusive
from .summaries import Summaries
from .sum_deku import byte_val
from .values import ArrayVal, IntVal, RefVal, USIZE, Opaque

_SUMM = None


def summaries():
    global _SUMM
    if _SUMM is None:
        _SUMM = Summaries()
    return _SUMM


def new_interp(prog, **opts):
    return Interp(prog, summaries(), opts)


def frame_buffer(st, nbytes):
    loc = st.new_heap(ArrayVal([byte_val(j) for j in range(nbytes)], nbytes))
    return RefVal(loc, False, meta=IntVal.const(USIZE, nbytes))


def decode_from_bytes(prog, nbytes, **opts):
    """all paths of Frame::from_bytes on an nbytes-long symbolic buffer"""
    ip = new_interp(prog, **opts)
    fn = prog.fns.get("adsb_deku::Frame::from_bytes")
    if fn is None:
        raise Inconclusive("anchor missing: adsb_deku::Frame::from_bytes")
    st = State()
    buf = frame_buffer(st, nbytes)
    outs = ip.run_function(fn, [buf], st)
    return ip, outs


def reader_at(st, nbytes, bitpos, last=0):
    """a deku Reader over an nbytes source, positioned at absolute bit `bitpos`"""
    from .sum_deku import byte_bits_msb
    consumed = (bitpos + 7) // 8
    src = Opaque.make("src", data=None, pos=consumed, n=nbytes, fault=())
    sloc = st.new_heap(src)
    left = ()
    if bitpos % 8:
        bits = byte_bits_msb(byte_val(consumed - 1))
        left = tuple(bits[bitpos % 8:])
    rd = Opaque.make("reader", inner=RefVal(sloc, True), leftover=left, last=last, bits_read=bitpos, skew=0)
    rloc = st.new_heap(rd)
    return RefVal(rloc, True)


def run_reader_fn(prog, path, nbytes, bitpos, extra_args=(), **opts):
    ip = new_interp(prog, **opts)
    fn = prog.fns.get(path)
    if fn is None:
        raise Inconclusive("anchor missing: " + path)
    st = State()
    r = reader_at(st, nbytes, bitpos)
    outs = ip.run_function(fn, [r] + list(extra_args), st)
    return ip, outs
