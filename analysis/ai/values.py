"""Abstract values of the MIR interpreter.

Integer domain = reduced product of
  rng   : interval [lo, hi] (always present, sound)
  vals  : optional explicit small set
  bits  : optional tuple (LSB first) of BitExpr = GF(2)-affine expression over atoms, or None (unknown bit)
  lin   : optional exact integer-linear combination  b + sum_j a_j * e_j  of BitExprs (each 0/1 valued)
  deps  : set of atoms the value may depend on (sound over-approximation)
A BitExpr is a pair (mask, c): XOR of the atoms whose ids are set in `mask`, XOR constant c.
Atoms 0..N are frame bits (absolute bit index in the input buffer); fresh atoms are allocated above ATOM_FRESH.
"""
import itertools

ATOM_FRESH = 4096
# value identities must not collide with those inside decode models unpickled from an earlier process
_vid = itertools.count(((__import__('time').time_ns() & 0xFFFFFFFFFF) << 24) + (__import__('os').getpid() & 0xFFFF) * 256 + 1)

ZERO = (0, 0)
ONE = (0, 1)
_CONST_CACHE = {}


def bx_xor(a, b):
    if a is None or b is None:
        return None
    return (a[0] ^ b[0], a[1] ^ b[1])


def bx_not(a):
    if a is None:
        return None
    return (a[0], a[1] ^ 1)


def bx_is_const(a):
    return a is not None and a[0] == 0


def mask_atoms(mask):
    out = []
    i = 0
    while mask:
        if mask & 1:
            out.append(i)
        mask >>= 1
        i += 1
    return out


def bx_str(a):
    if a is None:
        return "?"
    if a[0] == 0:
        return str(a[1])
    s = "^".join("a%d" % i for i in mask_atoms(a[0]))
    return s + ("^1" if a[1] else "")


class IntTy:
    __slots__ = ("bits", "signed", "kind")

    def __init__(self, bits, signed, kind="int"):
        self.bits = bits
        self.signed = signed
        self.kind = kind  # int | bool | char

    def min(self):
        return -(1 << (self.bits - 1)) if self.signed else 0

    def max(self):
        return (1 << (self.bits - 1)) - 1 if self.signed else (1 << self.bits) - 1

    def key(self):
        return (self.bits, self.signed, self.kind)

    def __repr__(self):
        if self.kind == "bool":
            return "bool"
        return ("i" if self.signed else "u") + str(self.bits)


BOOL = IntTy(1, False, "bool")
U8 = IntTy(8, False)
U16 = IntTy(16, False)
U32 = IntTy(32, False)
U64 = IntTy(64, False)
USIZE = IntTy(64, False)
ISIZE = IntTy(64, True)


def ty_of_json(t):
    k = t.get("k")
    if k == "int":
        return IntTy(t["bits"], t["signed"])
    if k == "bool":
        return BOOL
    if k == "char":
        return IntTy(32, False, "char")
    return None


class Lin:
    """b + sum coef[e] * e   (e BitExpr with nonzero mask); exact integer identity."""
    __slots__ = ("b", "terms")

    def __init__(self, b=0, terms=None):
        self.b = b
        self.terms = terms or {}

    @staticmethod
    def from_bits(bits):
        b = 0
        terms = {}
        for k, e in enumerate(bits):
            if e is None:
                return None
            w = 1 << k
            if e[0] == 0:
                b += w * e[1]
            else:
                # e = x ^ c ; if c==1 then e = 1 - x
                base = (e[0], 0)
                if e[1]:
                    b += w
                    terms[base] = terms.get(base, 0) - w
                else:
                    terms[base] = terms.get(base, 0) + w
        terms = {k: v for k, v in terms.items() if v != 0}
        return Lin(b, terms)

    def add(self, o, sign=1):
        t = dict(self.terms)
        for k, v in o.terms.items():
            nv = t.get(k, 0) + sign * v
            if nv:
                t[k] = nv
            else:
                t.pop(k, None)
        return Lin(self.b + sign * o.b, t)

    def scale(self, c):
        if c == 0:
            return Lin(0, {})
        return Lin(self.b * c, {k: v * c for k, v in self.terms.items()})

    def is_const(self):
        return not self.terms

    def range(self):
        lo = hi = self.b
        for v in self.terms.values():
            if v > 0:
                hi += v
            else:
                lo += v
        return lo, hi

    def atoms_mask(self):
        m = 0
        for k in self.terms:
            m |= k[0]
        return m

    def key(self):
        return (self.b, tuple(sorted(self.terms.items())))

    def eval(self, assign):
        """assign: dict atom->0/1 (or callable)"""
        v = self.b
        for (mask, _c), coef in self.terms.items():
            x = 0
            for a in mask_atoms(mask):
                x ^= assign[a]
            v += coef * x
        return v

    def __repr__(self):
        parts = [str(self.b)] if self.b or not self.terms else []
        for k, v in sorted(self.terms.items()):
            parts.append("%d*(%s)" % (v, bx_str(k)))
        return " + ".join(parts)


class IntVal:
    __slots__ = ("ty", "lo", "hi", "vals", "bits", "lin", "deps", "vid", "cmp", "tags", "_fp")

    def __init__(self, ty, lo=None, hi=None, vals=None, bits=None, lin=None, deps=frozenset(), cmp=None, tags=frozenset(), vid=None):
        self.ty = ty
        self.lo = ty.min() if lo is None else lo
        self.hi = ty.max() if hi is None else hi
        self.vals = vals
        self.bits = bits
        self.lin = lin
        self.deps = deps
        self.cmp = cmp
        self.tags = tags
        self.vid = vid if vid is not None else next(_vid)
        self._fp = None

    @staticmethod
    def const(ty, v):
        key = (ty.bits, ty.signed, ty.kind, v)
        t = _CONST_CACHE.get(key)
        if t is not None:
            return IntVal(ty, v, v, t[0], t[1], t[2])
        w = ty.bits
        u = v & ((1 << w) - 1)
        bits = tuple((0, (u >> k) & 1) for k in range(w))
        t = (frozenset([v]), bits, Lin(v, {}))
        if len(_CONST_CACHE) < 200000:
            _CONST_CACHE[key] = t
        return IntVal(ty, v, v, t[0], t[1], t[2])

    @staticmethod
    def top(ty, deps=frozenset(), tags=frozenset()):
        return IntVal(ty, deps=deps, tags=tags)

    @staticmethod
    def from_bits(ty, bits, tags=frozenset()):
        """unsigned value given by `bits` (LSB first, padded with zeros to the type width)."""
        w = ty.bits
        bits = tuple(bits) + tuple(ZERO for _ in range(w - len(bits)))
        lin = Lin.from_bits(bits)
        deps = set()
        for e in bits:
            if e is not None:
                deps.update(mask_atoms(e[0]))
        lo, hi = (lin.range() if lin is not None else (ty.min(), ty.max()))
        if ty.signed and bits[w - 1] != ZERO:
            lin = None
            lo, hi = ty.min(), ty.max()
        v = IntVal(ty, max(lo, ty.min()), min(hi, ty.max()), None, bits, lin, frozenset(deps), tags=tags)
        if v.lo == v.hi:
            v.vals = frozenset([v.lo])
        return v

    def is_const(self):
        return self.lo == self.hi

    def cval(self):
        return self.lo if self.lo == self.hi else None

    def with_(self, **kw):
        n = IntVal(self.ty, self.lo, self.hi, self.vals, self.bits, self.lin, self.deps, self.cmp, self.tags, self.vid)
        for k, v in kw.items():
            setattr(n, k, v)
        return n

    def fresh(self):
        return self.with_(vid=next(_vid))

    def sym_bits(self):
        """distinct non-constant bit expressions (or None if some bit unknown)"""
        if self.bits is None:
            return None
        s = []
        for e in self.bits:
            if e is None:
                return None
            if e[0] != 0:
                b = (e[0], 0)
                if b not in s:
                    s.append(b)
        return s

    def fp(self):
        return ("I", self.ty.key(), self.lo, self.hi, self.vals, self.bits, self.lin.key() if self.lin else None, self.deps)


    def __repr__(self):
        if self.is_const():
            return "%r(%d)" % (self.ty, self.lo)
        s = "%r[%d..%d]" % (self.ty, self.lo, self.hi)
        if self.vals is not None and len(self.vals) <= 8:
            s += "{%s}" % ",".join(str(v) for v in sorted(self.vals))
        if self.bits is not None:
            hi = len(self.bits)
            while hi > 1 and self.bits[hi - 1] == ZERO:
                hi -= 1
            s += "<" + " ".join(bx_str(e) for e in reversed(self.bits[:hi])) + ">"
        elif self.lin is not None:
            s += "=" + repr(self.lin)
        return s


class FloatVal:
    __slots__ = ("bits", "const", "term", "deps", "tags", "lo", "hi")

    def __init__(self, bits, const=None, term=None, deps=frozenset(), tags=frozenset(), lo=None, hi=None):
        self.bits = bits
        self.const = const
        self.term = term
        self.deps = deps
        self.tags = tags
        self.lo = lo
        self.hi = hi

    def fp(self):
        return ("F", self.bits, self.const, repr(self.term), self.deps)

    def __repr__(self):
        if self.const is not None:
            return "f%d(%r)" % (self.bits, self.const)
        return "f%d(%s)" % (self.bits, self.term if self.term is not None else "?")


class AdtVal:
    """struct / enum variant / closure environment"""
    __slots__ = ("path", "variant", "fields", "kind", "vname") + ("_fpc",)

    def __init__(self, path, variant, fields, kind="adt", vname=None):
        self.path = path
        self.variant = variant
        self.fields = tuple(fields)
        self.kind = kind
        self.vname = vname

    def fp(self):
        return ("A", self.path, self.variant, tuple(fp(f) for f in self.fields))

    def __repr__(self):
        n = self.path.split("::")[-1]
        if self.vname and self.vname != n:
            n += "::" + self.vname
        return "%s(%s)" % (n, ", ".join(repr(f) for f in self.fields))


class TupleVal:
    __slots__ = ("fields",) + ("_fpc",)

    def __init__(self, fields):
        self.fields = tuple(fields)

    def fp(self):
        return ("T", tuple(fp(f) for f in self.fields))

    def __repr__(self):
        return "(%s)" % ", ".join(repr(f) for f in self.fields)


UNIT = TupleVal(())


class ArrayVal:
    """fixed array or slice contents; elems is a tuple of values or None (unknown contents); n known length or None"""
    __slots__ = ("elems", "n", "elem_ty", "summary") + ("_fpc",)

    def __init__(self, elems=None, n=None, elem_ty=None, summary=None):
        self.elems = tuple(elems) if elems is not None else None
        self.n = n if n is not None else (len(elems) if elems is not None else None)
        self.elem_ty = elem_ty
        self.summary = summary  # join of all elements when elems is None

    def fp(self):
        return ("Arr", tuple(fp(e) for e in self.elems) if self.elems is not None else None, self.n, fp(self.summary))

    def __repr__(self):
        if self.elems is not None:
            return "[%s]" % ", ".join(repr(e) for e in self.elems)
        return "[?; %s]" % self.n


class RefVal:
    """pointer to a location: (frame id, local index, projection tuple) or to a heap object ('h', id)"""
    __slots__ = ("loc", "mut", "meta")

    def __init__(self, loc, mut=False, meta=None):
        self.loc = loc
        self.mut = mut
        self.meta = meta  # slice length IntVal for fat pointers / subslice window (start, len)

    def fp(self):
        loc = self.loc
        proj = loc[-1]
        if proj:
            proj = tuple((p[0], p[1]) if p[0] == "f" else (tuple(fp(x) for x in p)) for p in proj)
        return ("R", loc[:-1] + (proj,), fp(self.meta))

    def __repr__(self):
        return "&%s%r" % ("mut " if self.mut else "", self.loc)


class Top:
    """unknown value of a type"""
    __slots__ = ("ty", "deps", "tags")

    def __init__(self, ty=None, deps=frozenset(), tags=frozenset()):
        self.ty = ty
        self.deps = deps
        self.tags = tags

    def fp(self):
        return ("Top", repr(self.ty) if not isinstance(self.ty, dict) else ty_str(self.ty), self.deps)

    def __repr__(self):
        return "Top(%s)" % (ty_str(self.ty) if isinstance(self.ty, dict) else self.ty)


class Choice:
    """lazy fork: alternatives [(delta_facts, value)]; exactly one alternative holds"""
    __slots__ = ("alts",) + ("_fpc",)

    def __init__(self, alts):
        self.alts = tuple(alts)

    def fp(self):
        return ("C", tuple((_facts_fp(d), fp(v)) for d, v in self.alts))

    def __repr__(self):
        return "Choice(%s)" % " | ".join(repr(v) for _d, v in self.alts)


class Opaque:
    """model object with python-side state (reader, vec, string, iterator, map ...); immutable by convention"""
    __slots__ = ("kind", "data") + ("_fpc",)

    def __init__(self, kind, data):
        self.kind = kind
        self.data = data  # tuple / frozen dict items

    def get(self, k, default=None):
        for kk, v in self.data:
            if kk == k:
                return v
        return default

    def set(self, **kw):
        d = dict(self.data)
        d.update(kw)
        return Opaque(self.kind, tuple(sorted(d.items(), key=lambda kv: kv[0])))

    @staticmethod
    def make(_kind, **kw):
        return Opaque(_kind, tuple(sorted(kw.items(), key=lambda kv: kv[0])))

    def fp(self):
        return ("O", self.kind, tuple((k, fp(v)) for k, v in self.data))

    def __repr__(self):
        return "%s{%s}" % (self.kind, ", ".join("%s=%r" % kv for kv in self.data))


_CACHED = None


def _facts_fp(d):
    out = []
    for f in d:
        if f[0] == "guard":
            out.append((f[0], repr(f[1])))
        elif f[0] == "or":
            out.append(("or", tuple(_facts_fp(c) for c in f[1])))
        else:
            out.append(f)
    return tuple(out)


def fp(v):
    if v is None:
        return None
    if isinstance(v, (int, str, bool, float)):
        return v
    if isinstance(v, (tuple, list)):
        return tuple(fp(x) for x in v)
    if isinstance(v, frozenset):
        return v
    if isinstance(v, dict):
        return tuple(sorted((k, fp(x)) for k, x in v.items()))
    if isinstance(v, _CACHED):
        try:
            return v._fpc
        except AttributeError:
            r = v.fp()
            # hash-cons the fingerprint to keep comparisons cheap
            v._fpc = r
            return r
    return v.fp()


def ty_str(t):
    if t is None:
        return "?"
    if not isinstance(t, dict):
        return str(t)
    k = t.get("k")
    if k == "int":
        return ("i" if t["signed"] else "u") + ("size" if t.get("ptr") else str(t["bits"]))
    if k in ("bool", "char", "str", "never"):
        return k
    if k == "float":
        return "f%d" % t["bits"]
    if k == "adt":
        a = ",".join(ty_str(x) for x in t.get("args", []))
        return t["path"] + ("<%s>" % a if a else "")
    if k == "ref":
        return "&" + ("mut " if t["mut"] else "") + ty_str(t["to"])
    if k == "ptr":
        return "*" + ty_str(t["to"])
    if k == "array":
        return "[%s; %s]" % (ty_str(t["elem"]), t.get("len"))
    if k == "slice":
        return "[%s]" % ty_str(t["elem"])
    if k == "tuple":
        return "(%s)" % ",".join(ty_str(x) for x in t["elems"])
    if k == "closure":
        return "{closure %s}" % t["def"]
    if k == "param":
        return t["name"]
    if k == "fndef":
        return "fn " + t["path"]
    return t.get("text", k or "?")


def deps_of(v):
    """atoms a value may depend on"""
    if v is None:
        return frozenset()
    if isinstance(v, (IntVal, FloatVal, Top)):
        return v.deps
    if isinstance(v, (AdtVal, TupleVal)):
        s = frozenset()
        for f in v.fields:
            s |= deps_of(f)
        return s
    if isinstance(v, ArrayVal):
        s = deps_of(v.summary)
        if v.elems:
            for e in v.elems:
                s |= deps_of(e)
        return s
    if isinstance(v, Choice):
        s = frozenset()
        for d, x in v.alts:
            s |= deps_of(x)
            for f in d:
                s |= fact_atoms(f)
        return s
    if isinstance(v, Opaque):
        s = frozenset()
        for _k, x in v.data:
            if not isinstance(x, (int, str, bool, float, type(None))):
                s |= deps_of(x)
        return s
    if isinstance(v, (tuple, list)):
        s = frozenset()
        for x in v:
            s |= deps_of(x)
        return s
    return frozenset()


def fact_atoms(f):
    k = f[0]
    if k == "lin":
        return frozenset(mask_atoms(f[1]))
    if k == "vals":
        s = set()
        for e in f[1]:
            if e is not None:
                s.update(mask_atoms(e[0]))
        return frozenset(s)
    if k == "guard":
        return f[1].get("deps", frozenset()) if isinstance(f[1], dict) else frozenset()
    if k == "or":
        s = frozenset()
        for conj in f[1]:
            for sub in conj:
                s |= fact_atoms(sub)
        return s
    return frozenset()


_CACHED = (AdtVal, TupleVal, Choice, Opaque, ArrayVal)
