"""fmt / alloc collections / libm / tracing / time summaries."""
from .values import (BOOL, U8, USIZE, AdtVal, ArrayVal, Choice, FloatVal, IntTy, IntVal, Lin, Opaque, RefVal, Top,
                     TupleVal, UNIT, ZERO, ONE, deps_of, ty_of_json, ty_str)
from .interp import Inconclusive, NeedSplit, top_of, join_val
from .summaries import OPTION, RESULT, some, NONE, ok, err

FMT_ERR = "core::fmt::Error"


def register(S):
    # ------------------------------------------------------------------ libm / float
    LIBM = ["floor", "ceil", "sin", "cos", "atan2", "hypot", "sqrt", "powf", "pow", "fabs", "round", "trunc", "asin", "acos", "tan",
            "atan", "exp", "log", "fmod"]

    @S.pat(r"^libm::(math::\w+::)?(%s)$" % "|".join(LIBM))
    def libm_fn(ctx):
        name = ctx.path.rsplit("::", 1)[1]
        args = ctx.args
        d = frozenset()
        terms = []
        for a in args:
            d |= deps_of(a)
            terms.append(a.term if isinstance(a, FloatVal) else None)
        rty = ctx.ret_ty() or {"k": "float", "bits": 64}
        term = ("call", name) + tuple(terms) if all(t is not None for t in terms) else None
        lo = hi = None
        a0 = args[0] if args else None
        if name in ("floor", "ceil", "round", "trunc") and isinstance(a0, FloatVal) and a0.lo is not None and a0.hi is not None:
            lo, hi = a0.lo - 1, a0.hi + 1
        if name in ("sin", "cos"):
            lo, hi = -1.0, 1.0
        if name in ("sqrt", "hypot", "fabs"):
            lo = 0.0
        ctx.ip.event(ctx.st, "libm", name=name, fn=ctx.fr.fn["path"])
        return ctx.ret(FloatVal(rty.get("bits", 64), term=term, deps=d, lo=lo, hi=hi))

    @S.pat(r"^(core|std)::f(32|64)::<impl f(32|64)>::\w+$")
    def float_method(ctx):
        name = ctx.path.rsplit("::", 1)[1]
        d = frozenset()
        terms = []
        for a in ctx.args:
            d |= deps_of(a)
            terms.append(a.term if isinstance(a, FloatVal) else (("int", a) if isinstance(a, IntVal) else None))
        rty = ctx.ret_ty() or {"k": "float", "bits": 64}
        if rty.get("k") == "bool":
            return ctx.ret(IntVal.top(BOOL, deps=d))
        term = ("call", name) + tuple(terms) if all(t is not None for t in terms) else None
        ctx.ip.event(ctx.st, "float_method", name=name, fn=ctx.fr.fn["path"], path=ctx.path)
        return ctx.ret(FloatVal(rty.get("bits", 64), term=term, deps=d))

    # ------------------------------------------------------------------ fmt
    @S.on("core::fmt::rt::Argument::<'_>::from_usize")
    def fmt_argument_usize(ctx):
        return ctx.ret(Opaque.make("fmtarg", trait="usize", val=ctx.args[0], ty="usize", span_line=0))

    @S.pat(r"^core::fmt::rt::Argument::<'_>::new_(display|debug|lower_hex|upper_hex|lower_exp|upper_exp|octal|binary|pointer)$")
    def fmt_argument(ctx):
        kind = ctx.path.rsplit("new_", 1)[1]
        a = ctx.args[0]
        tyj = None
        t = ctx.callee.get("targs")
        if t:
            tyj = t[0]
        return ctx.ret(Opaque.make("fmtarg", trait=kind, val=a, ty=ty_str(tyj), span_line=(ctx.call.get("span") or {}).get("lo", [0])[0]))

    @S.pat(r"^core::fmt::rt::<impl core::fmt::Arguments<'a>>::new|^core::fmt::Arguments::<'a>::(new|new_v1|new_const|from_str|from_str_nonconst|new_v1_formatted)")
    def fmt_arguments(ctx):
        args = []
        for a in ctx.args:
            v = ctx.deref(a) if isinstance(a, RefVal) else a
            if isinstance(v, ArrayVal) and v.elems is not None:
                for e in v.elems:
                    if isinstance(e, Opaque) and e.kind == "fmtarg":
                        args.append(e)
        return ctx.ret(Opaque.make("fmtargs", args=tuple(args), span=ctx.call.get("span")))

    def invoke_fmt_args(ctx, fargs, done):
        """Display/Debug impls of workspace types among the arguments are executed (their panic sites count)"""
        ip, st = ctx.ip, ctx.st
        todo = []
        if isinstance(fargs, Opaque) and fargs.kind == "fmtargs":
            for a in fargs.get("args"):
                v = a.get("val")
                target = ip.read_loc(st, v.loc) if isinstance(v, RefVal) else v
                # look through references
                hops = 0
                ref = v
                while isinstance(target, RefVal) and hops < 4:
                    ref = target
                    target = ip.read_loc(st, target.loc)
                    hops += 1
                if isinstance(target, AdtVal) and target.kind == "adt":
                    tr = "core::fmt::Display" if a.get("trait") == "display" else ("core::fmt::Debug" if a.get("trait") == "debug" else None)
                    if tr:
                        fn = None
                        for f in ip.prog.fns.values():
                            im = f.get("impl")
                            if f.get("name") == "fmt" and im and im.get("trait_def") == tr and im["self_ty"].get("k") == "adt" and im["self_ty"]["path"] == target.path:
                                fn = f
                                break
                        if fn is not None and not fn["path"].endswith("as core::fmt::Debug>::fmt"):
                            todo.append((fn, ref))
                elif isinstance(target, Choice) and any(isinstance(x, AdtVal) and x.kind == "adt" and x.path in ip.prog.adts for _d, x in target.alts):
                    raise NeedSplit(ref.loc if isinstance(ref, RefVal) else None)
        return todo

    def write_fmt_common(ctx, fargs_idx, fmt_ref):
        ip, st = ctx.ip, ctx.st
        fargs = ctx.args[fargs_idx]
        todo = invoke_fmt_args(ctx, fargs, None)
        vals = []
        locs = []
        if isinstance(fargs, Opaque) and fargs.kind == "fmtargs":
            for a in fargs.get("args"):
                v = a.get("val")
                hops = 0
                last = None
                while isinstance(v, RefVal) and hops < 4:
                    last = v.loc
                    try:
                        v = ip.read_loc(st, v.loc)
                    except Exception:
                        break
                    hops += 1
                vals.append((a.get("trait"), a.get("ty"), v))
                locs.append(last)       # where the printed value lives (identity of the field, when it is borrowed in place)
        ip.event(st, "write_fmt", fn=ctx.fr.fn["path"], span=ctx.call.get("span"), aspan=fargs.get("span") if isinstance(fargs, Opaque) and fargs.kind == "fmtargs" else None,
                 args=tuple(vals), locs=tuple(locs), depth=len(st.frames))
        dest, target = ctx.dest, ctx.target
        rty = ctx.ret_ty()

        def finish(ip2, st2):
            s_ok, s_err = st2, st2.copy()
            ip2.finish_call(s_ok, dest, target, ok(UNIT))
            ip2.finish_call(s_err, dest, target, err(AdtVal(FMT_ERR, 0, [])))
            if ip2.opts.get("fmt_infallible"):
                return None
            return [s_ok, s_err]

        def run(ip2, st2, i):
            if i >= len(todo):
                return finish(ip2, st2)
            fn, ref = todo[i]
            fmtr = fmt_ref if fmt_ref is not None else RefVal(st2.new_heap(Opaque.make("formatter")), True)
            outs = []
            for s3, rv in ip2.run_nested(st2, fn, [ref, fmtr]):
                if s3.status != "run" or rv is None:
                    outs.append(s3)
                    continue
                alts = rv.alts if isinstance(rv, Choice) else [((), rv)]
                isok = [not (isinstance(x, AdtVal) and x.path == RESULT and x.variant == 1) for _d, x in alts]
                if not any(isok):
                    ip2.finish_call(s3, dest, target, err(AdtVal(FMT_ERR, 0, [])))
                    outs.append(s3)
                    continue
                if not all(isok):
                    s4 = s3.copy()
                    ip2.finish_call(s4, dest, target, err(AdtVal(FMT_ERR, 0, [])))
                    outs.append(s4)
                r = run(ip2, s3, i + 1)
                outs.extend([s3] if r is None else r)
            return outs
        return run(ip, st, 0)

    @S.on("core::fmt::Formatter::<'a>::write_fmt")
    def formatter_write_fmt(ctx):
        return write_fmt_common(ctx, 1, ctx.args[0])

    @S.on("core::fmt::Write::write_fmt", "<alloc::string::String as core::fmt::Write>::write_fmt")
    def write_write_fmt(ctx):
        # String as fmt::Write
        tgt = ctx.deref(ctx.args[0])
        if isinstance(tgt, Opaque) and tgt.kind == "string":
            ctx.ip.write_loc(ctx.st, ctx.args[0].loc, tgt.set(elems=None, n=IntVal(USIZE, 0, (1 << 40)), summary=IntVal.top(IntTy(32, False, "char"))))
        return write_fmt_common(ctx, 1, None)

    @S.on("alloc::fmt::format")
    def alloc_format(ctx):
        ip, st = ctx.ip, ctx.st
        fargs = ctx.args[0]
        todo = invoke_fmt_args(ctx, fargs, None)
        ip.event(st, "format", fn=ctx.fr.fn["path"], span=ctx.call.get("span"))
        dest, target = ctx.dest, ctx.target
        srcvals = []
        if isinstance(fargs, Opaque) and fargs.kind == "fmtargs":
            for a in fargs.get("args"):
                v = a.get("val")
                hops = 0
                while isinstance(v, RefVal) and hops < 4:
                    try:
                        v = ip.read_loc(st, v.loc)
                    except Exception:
                        break
                    hops += 1
                srcvals.append(v)
        res = Opaque.make("string", elems=None, n=IntVal(USIZE, 0, 1 << 40), summary=IntVal.top(IntTy(32, False, "char")), src=tuple(srcvals),
                          site=(ctx.call.get("span") or {}).get("cs_lo") or (ctx.call.get("span") or {}).get("lo"))

        def run(ip2, st2, i):
            if i >= len(todo):
                return ip2.finish_call(st2, dest, target, res)
            fn, ref = todo[i]
            fmtr = RefVal(st2.new_heap(Opaque.make("formatter")), True)
            outs = []
            for s3, rv in ip2.run_nested(st2, fn, [ref, fmtr]):
                if s3.status != "run":
                    outs.append(s3)
                    continue
                r = run(ip2, s3, i + 1)
                outs.extend([s3] if r is None else r)
            return outs
        return run(ip, st, 0)

    @S.pat(r"^<T as alloc::string::(ToString|SpecToString)>::(to_string|spec_to_string)$|^<str as alloc::string::(SpecToString|ToString)>::")
    def to_string(ctx):
        a = ctx.args[0] if ctx.args else None
        v = a
        hops = 0
        while isinstance(v, RefVal) and hops < 4:
            try:
                v = ctx.ip.read_loc(ctx.st, v.loc)
            except Exception:
                break
            hops += 1
        return ctx.ret(Opaque.make("string", elems=None, n=IntVal(USIZE, 0, 1 << 40), summary=IntVal.top(IntTy(32, False, "char")), src=(v,)))

    @S.on("core::fmt::Formatter::<'a>::write_str", "<alloc::string::String as core::fmt::Write>::write_str", "core::fmt::Write::write_str")
    def write_str(ctx):
        sv = ctx.args[1] if len(ctx.args) > 1 else None
        hops = 0
        while isinstance(sv, RefVal) and hops < 3:
            sv = ctx.ip.read_loc(ctx.st, sv.loc)
            hops += 1
        ctx.ip.event(ctx.st, "write_str", fn=ctx.fr.fn["path"], span=ctx.call.get("span"), s=sv.get("s") if isinstance(sv, Opaque) and sv.kind == "str" else None)
        if ctx.ip.opts.get("fmt_infallible"):
            return ctx.ret(ok(UNIT))
        s_ok, s_err = ctx.st, ctx.st.copy()
        return ctx.ret_states([(s_ok, ok(UNIT)), (s_err, err(AdtVal(FMT_ERR, 0, [])))])

    @S.pat(r"^core::fmt::Formatter::<'a>::debug_\w+$|^core::fmt::builders::")
    def formatter_debug(ctx):
        s_ok, s_err = ctx.st, ctx.st.copy()
        if ctx.ret_ty() and ctx.ret_ty().get("path") == RESULT:
            return ctx.ret_states([(s_ok, ok(UNIT)), (s_err, err(AdtVal(FMT_ERR, 0, [])))])
        return ctx.ret(ctx.top_ret())

    @S.pat(r"^alloc::string::<impl core::convert::From<.*> for alloc::borrow::Cow<'a, str>>::from$|^<alloc::borrow::Cow<'a, str> as core::convert::From")
    def cow_from(ctx):
        return ctx.ret(Opaque.make("cow", inner=ctx.args[0]))

    # ------------------------------------------------------------------ iterator chain used by the identification reader
    @S.on("<alloc::vec::Vec<T, A> as core::iter::traits::collect::IntoIterator>::into_iter")
    def vec_into_iter(ctx):
        v = ctx.args[0]
        if isinstance(v, Opaque) and v.kind == "vec":
            return ctx.ret(Opaque.make("vec_iter", elems=v.get("elems"), summary=v.get("summary"), pos=0))
        return ctx.ret(Opaque.make("vec_iter", elems=None, summary=Top(None, deps_of(v)), pos=0))

    # ------------------------------------------------------------------ tracing (no-ops)
    @S.pat(r"tracing(_core)?::")
    def tracing_any(ctx):
        rty = ctx.ret_ty()
        if rty and rty.get("k") == "bool":
            if ctx.ip.opts.get("explore_logs"):
                # logging enabled: every enabled-check answers yes (is_never() style negated checks answer no)
                neg = ctx.path.endswith("is_never") or ctx.path.endswith("is_none") or ctx.path.endswith("is_disabled")
                return ctx.ret(IntVal.const(BOOL, 0 if neg else 1))
            return ctx.ret(IntVal.const(BOOL, 0))
        return ctx.ret(ctx.top_ret())

    # ------------------------------------------------------------------ time
    @S.on("std::time::SystemTime::now")
    def systime_now(ctx):
        return ctx.ret(Top(ctx.ret_ty(), tags=frozenset([("time", "now")])))
