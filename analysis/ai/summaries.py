"""Summaries of trusted external callees (deku primitives, core/alloc/std, libm).

dispatch() returns NotImplemented when no summary claims the callee (workspace functions are then
inlined, anything else is havocked and recorded as unsummarised).
"""
import re

from .values import (BOOL, U8, USIZE, AdtVal, ArrayVal, Choice, FloatVal, IntTy, IntVal, Lin, Opaque, RefVal, Top,
                     TupleVal, UNIT, ZERO, ONE, deps_of, mask_atoms, ty_of_json, ty_str)
from .interp import Inconclusive, NeedSplit, top_of, join_val

OPTION = "core::option::Option"
RESULT = "core::result::Result"
CFLOW = "core::ops::control_flow::ControlFlow"


def some(v):
    return AdtVal(OPTION, 1, [v], vname="Some")


NONE = AdtVal(OPTION, 0, [], vname="None")


def ok(v):
    return AdtVal(RESULT, 0, [v], vname="Ok")


def err(v):
    return AdtVal(RESULT, 1, [v], vname="Err")


def is_variant(v, path, idx):
    return isinstance(v, AdtVal) and v.path == path and v.variant == idx


class Summaries:
    def __init__(self):
        self.exact = {}
        self.patterns = []
        self.register_all()

    def on(self, *names):
        def deco(f):
            for n in names:
                self.exact[n] = f
            return f
        return deco

    def pat(self, regex):
        def deco(f):
            self.patterns.append((re.compile(regex), f))
            return f
        return deco

    def dispatch(self, ip, st, fr, callee, args, dest, target, call, base):
        path = callee.get("resolved") or callee["path"]
        f = self.exact.get(path) or self.exact.get(callee["path"])
        if f is None:
            full = callee.get("resolved_full") or callee.get("full") or path
            for rx, g in self.patterns:
                if rx.search(path) or rx.search(full):
                    f = g
                    break
        if f is None:
            return NotImplemented
        ctx = CallCtx(ip, st, fr, callee, args, dest, target, call, base)
        # arguments that are lazy choices must be split first when the summary inspects them
        return f(ctx)

    def register_all(self):
        from . import sum_core, sum_deku, sum_misc, sum_tracker, sum_iter
        sum_core.register(self)
        sum_deku.register(self)
        sum_misc.register(self)
        sum_tracker.register(self)
        sum_iter.register(self)


class CallCtx:
    def __init__(self, ip, st, fr, callee, args, dest, target, call, base):
        self.ip = ip
        self.st = st
        self.fr = fr
        self.callee = callee
        self.args = args
        self.dest = dest
        self.target = target
        self.call = call
        self.base = base

    @property
    def path(self):
        return self.callee.get("resolved") or self.callee["path"]

    @property
    def full(self):
        return self.callee.get("resolved_full") or self.callee.get("full") or self.path

    def ret_ty(self):
        d = self.call["dest"]
        if not d["proj"]:
            return self.fr.fn["locals"][d["local"]]["ty"]
        return None

    def ret(self, v):
        return self.ip.finish_call(self.st, self.dest, self.target, v)

    def ret_states(self, pairs):
        """fork: list of (state, value)"""
        outs = []
        for s, v in pairs:
            self.ip.finish_call(s, self.dest, self.target, v)
            outs.append(s)
        return outs

    def deref(self, v):
        """value behind a reference argument (splitting choices)"""
        if isinstance(v, RefVal):
            x = self.ip.read_loc(self.st, v.loc)
            if isinstance(x, Choice):
                raise NeedSplit(v.loc)
            return x
        return v

    def arg_split(self, i):
        """make sure argument i is not a Choice (fork the caller on it)"""
        a = self.args[i]
        if isinstance(a, Choice):
            op = self.call["args"][i]
            pl = op.get("move") or op.get("copy")
            raise NeedSplit(self.ip.place_loc(self.st, self.fr, pl))
        return a

    def top_ret(self, extra_deps=frozenset(), tag=None):
        d = frozenset(extra_deps)
        for a in self.args:
            d |= deps_of(a)
            if isinstance(a, RefVal):
                try:
                    d |= deps_of(self.ip.read_loc(self.st, a.loc))
                except Exception:
                    pass
        tags = frozenset([("ret_of", tag or self.path)])
        return top_of(self.ret_ty(), d, tags)

    def call_closure(self, clos, cargs, on_return):
        return self.call_closure_on(self.st, clos, cargs, on_return)

    def call_closure_on(self, st, clos, cargs, on_return):
        """invoke a closure / fn item value with argument values; on_return(ip, st, rv) continues"""
        ip = self.ip
        if isinstance(clos, RefVal):
            cv = ip.read_loc(st, clos.loc)
        else:
            cv = clos
        if isinstance(cv, AdtVal) and cv.kind == "closure":
            fn = ip.prog.fns.get(cv.path)
            if fn is None:
                return None
            env = clos
            # closure bodies take the environment as _1 (by ref or by value as declared)
            envty = fn["locals"][1]["ty"]
            if envty.get("k") == "ref" and not isinstance(env, RefVal):
                loc = st.new_heap(cv)
                env = RefVal(loc, envty.get("mut", False))
            elif envty.get("k") != "ref" and isinstance(env, RefVal):
                env = cv
            ip.call_fn(st, fn, [env] + list(cargs), on_return=on_return)
            return True
        if isinstance(cv, Opaque) and cv.kind == "fnptr":
            fn = ip.prog.fns.get(cv.get("path"))
            if fn is None:
                return None
            ip.call_fn(st, fn, list(cargs), on_return=on_return)
            return True
        return None
