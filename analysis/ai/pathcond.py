"""Path condition: GF(2)-linear constraints over atoms, small-set refinements of bit-vectors, opaque guards."""
from .values import mask_atoms


class PathCond:
    __slots__ = ("rows", "vals", "log", "dead")

    def __init__(self):
        self.rows = {}    # pivot atom -> (mask without pivot, const): pivot = XOR(mask atoms) ^ const
        self.vals = {}    # bits tuple -> frozenset of allowed unsigned values
        self.log = []     # append-only list of facts
        self.dead = False

    def copy(self):
        n = PathCond()
        n.rows = dict(self.rows)
        n.vals = dict(self.vals)
        n.log = list(self.log)
        n.dead = self.dead
        return n

    # -- GF(2) ----------------------------------------------------------
    def reduce(self, e):
        """substitute pivots in a BitExpr"""
        if e is None:
            return None
        mask, c = e
        if not mask or not self.rows:
            return e
        for a in mask_atoms(mask):
            r = self.rows.get(a)
            if r is not None and (mask >> a) & 1:
                mask ^= (1 << a) ^ r[0]
                c ^= r[1]
        return (mask, c)

    def add_lin(self, mask, const, record=True):
        """add constraint XOR(mask) == const. Returns False if inconsistent."""
        m, c = self.reduce((mask, const))
        if m == 0:
            if c != 0:
                self.dead = True
                return False
            return True
        # choose the highest atom as pivot
        p = m.bit_length() - 1
        rest = m ^ (1 << p)
        # substitute p in existing rows
        for a, (rm, rc) in list(self.rows.items()):
            if (rm >> p) & 1:
                self.rows[a] = (rm ^ (1 << p) ^ rest, rc ^ c)
        self.rows[p] = (rest, c)
        if record:
            self.log.append(("lin", mask, const))
        # re-key vals refinements
        if self.vals:
            nv = {}
            for bits, s in self.vals.items():
                nb = tuple(self.reduce(e) for e in bits)
                nv[nb] = (nv[nb] & s) if nb in nv else s
            self.vals = nv
            # a refinement whose bits have all become constants is decided: the path is infeasible if the value is not allowed
            for nb, s in nv.items():
                if not s or (all(e is not None and e[0] == 0 for e in nb) and sum(e[1] << i for i, e in enumerate(nb)) not in s):
                    self.dead = True
                    return False
        return True

    def add_vals(self, bits, allowed, record=True):
        bits = tuple(self.reduce(e) for e in bits)
        # strip constant high zeros for canonical keys
        cur = self.vals.get(bits)
        new = frozenset(allowed) if cur is None else (cur & frozenset(allowed))
        self.vals[bits] = new
        if record:
            self.log.append(("vals", bits, frozenset(allowed)))
        if not new:
            self.dead = True
            return False
        if all(e is not None and e[0] == 0 for e in bits) and sum(e[1] << i for i, e in enumerate(bits)) not in new:
            self.dead = True
            return False
        return True

    def add_guard(self, g):
        self.log.append(("guard", g))

    def apply_fact(self, f):
        if f[0] == "lin":
            return self.add_lin(f[1], f[2])
        if f[0] == "vals":
            return self.add_vals(f[1], f[2])
        self.log.append(f)
        if f[0] == "or":
            return self._or_consequences(f[1])
        return True

    def _or_consequences(self, conjs):
        """what every disjunct implies also holds: a linear fact present in all of them, and for value-set facts over the same
        bits the union of the allowed sets (so a range established inside a callee on each of its paths survives the merge)"""
        if not conjs:
            return True
        common_lin = None
        per_bits = None
        for conj in conjs:
            lins = set((g[1], g[2]) for g in conj if g[0] == "lin")
            common_lin = lins if common_lin is None else (common_lin & lins)
            vb = {}
            for g in conj:
                if g[0] == "vals":
                    key = tuple(self.reduce(e) for e in g[1])
                    vb[key] = (vb[key] & g[2]) if key in vb else frozenset(g[2])
            if per_bits is None:
                per_bits = vb
            else:
                per_bits = {k: (per_bits[k] | vb[k]) for k in per_bits if k in vb}
        ok = True
        # recorded like any other fact: values are simplified under them, so consumers of the log must see them too
        for m, c in sorted(common_lin or ()):
            ok = self.add_lin(m, c, record=True) and ok
        for bits, allowed in (per_bits or {}).items():
            ok = self.add_vals(bits, allowed, record=True) and ok
        return ok

    def lookup_vals(self, bits):
        return self.vals.get(tuple(bits))

    def fp(self):
        return (tuple(sorted(self.rows.items())), tuple(sorted((repr(k), tuple(sorted(v))) for k, v in self.vals.items())))


def eval_bx(e, assign):
    v = e[1]
    for a in mask_atoms(e[0]):
        v ^= assign[a]
    return v


_OPS = {"Eq": lambda x, y: x == y, "Ne": lambda x, y: x != y, "Lt": lambda x, y: x < y, "Le": lambda x, y: x <= y,
        "Gt": lambda x, y: x > y, "Ge": lambda x, y: x >= y}


def eval_fact(f, assign):
    """truth of one path fact under an assignment of atoms; None if not evaluable (e.g. it mentions an atom that is not assigned)"""
    try:
        return _eval_fact(f, assign)
    except KeyError:
        return None


def _eval_fact(f, assign):
    k = f[0]
    if k == "lin":
        return eval_bx((f[1], 0), assign) == f[2]
    if k == "vals":
        v = 0
        for i, e in enumerate(f[1]):
            if e is None:
                return None
            v |= eval_bx(e, assign) << i
        return v in f[2]
    if k == "or":
        anyunk = False
        for conj in f[1]:
            r = True
            for sub in conj:
                e = eval_fact(sub, assign)
                if e is False:
                    r = False
                    break
                if e is None:
                    r = None
            if r is True:
                return True
            if r is None:
                anyunk = True
        return None if anyunk else False
    if k == "guard":
        g = f[1]
        op = g.get("op")
        if op in _OPS and isinstance(g.get("a"), dict) and isinstance(g.get("b"), dict):
            def val(d):
                if "const" in d:
                    return d["const"]
                if "lin" in d:
                    return d["lin"].eval(assign)
                return None
            x, y = val(g["a"]), val(g["b"])
            if x is None or y is None:
                return None
            return _OPS[op](x, y)
        if op == "try_from" and g.get("lin") is not None:
            v = g["lin"].eval(assign)
            t = g["to"]
            bits = int(t[1:])
            lo, hi = (-(1 << (bits - 1)), (1 << (bits - 1)) - 1) if t[0] == "i" else (0, (1 << bits) - 1)
            return (lo <= v <= hi) == (g["outcome"] == "ok")
        if op == "notin" and isinstance(g.get("a"), dict) and "lin" in g["a"]:
            return g["a"]["lin"].eval(assign) not in g["b"]
        return None
    return None


def facts_atoms(facts):
    from .values import fact_atoms
    s = frozenset()
    for f in facts:
        if f[0] == "or":
            for conj in f[1]:
                s |= facts_atoms(conj)
        elif f[0] == "guard":
            g = f[1]
            s |= g.get("deps", frozenset())
        else:
            s |= fact_atoms(f)
    return s
