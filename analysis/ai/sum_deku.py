"""deku 0.18.1 reader model + byte sources (summarised from deku's reader.rs / impls/*.rs)."""
from .values import (BOOL, U8, USIZE, AdtVal, ArrayVal, Choice, FloatVal, IntTy, IntVal, Lin, Opaque, RefVal, Top,
                     TupleVal, UNIT, ZERO, ONE, deps_of, ty_of_json, ty_str)
from .interp import Inconclusive, NeedSplit, top_of
from .summaries import OPTION, RESULT, some, NONE, ok, err

HOST_LITTLE = True   # Endian::default() is the target's byte order; the build host here is x86_64


def byte_val(j):
    """source byte j as an IntVal over frame atoms (atom 8j is the MSB)"""
    return IntVal.from_bits(U8, tuple((1 << (8 * j + 7 - k), 0) for k in range(8)))


def byte_bits_msb(v):
    """8 BitExprs MSB first of a byte value"""
    if isinstance(v, IntVal) and v.bits is not None:
        return [v.bits[7 - k] for k in range(8)]
    return [None] * 8


def deku_incomplete():
    return err(AdtVal("deku::error::DekuError", 0, [Top(None)], vname="Incomplete"))


def deku_parse_err():
    return err(AdtVal("deku::error::DekuError", 1, [Top(None)], vname="Parse"))


def assemble(bits_msb, endian_little, ty):
    """value of type ty from n bits (MSB first in stream order) as deku's DekuRead::read does"""
    n = len(bits_msb)
    w = ty.bits
    out = [ZERO] * w
    if not endian_little or n <= 8:
        for i, e in enumerate(bits_msb):
            out[n - 1 - i] = e
    else:
        # little endian: full bytes in stream order are the least significant bytes; a trailing partial
        # chunk of r bits is right-aligned in the next byte
        full = n // 8
        r = n % 8
        for k in range(full):
            for b in range(8):
                out[8 * k + 7 - b] = bits_msb[8 * k + b]
        for b in range(r):
            out[8 * full + (r - 1 - b)] = bits_msb[8 * full + b]
    if any(e is None for e in out):
        v = IntVal(ty, 0, (1 << n) - 1 if n < w else None, None, tuple(out), None, frozenset())
        return v
    return IntVal.from_bits(ty, tuple(out))


def find_impl_fn(prog, adt_path, trait_suffix, name):
    for f in prog.fns.values():
        im = f.get("impl")
        if f.get("name") == name and im and im.get("trait_def") and im["trait_def"].endswith(trait_suffix):
            st = im["self_ty"]
            if st.get("k") == "adt" and st["path"] == adt_path:
                return f
    return None


def register(S):
    # ------------------------------------------------------------------ byte sources
    def src_read(ip, st, sref, bufref):
        """<source as Read>::read: fills buf with the next bytes, returns Ok(k)"""
        src = ip.read_loc(st, sref.loc)
        if not (isinstance(src, Opaque) and src.kind == "src"):
            raise Inconclusive("read on unknown byte source")
        pos, n = src.get("pos"), src.get("n")
        blen = bufref.meta if isinstance(bufref, RefVal) else None
        if blen is None:
            blen = ip.len_of(st, ip.read_loc(st, bufref.loc))
        if not (isinstance(blen, IntVal) and blen.is_const()):
            raise Inconclusive("source read into buffer of unknown length")
        want = blen.cval()
        fault = src.get("fault")
        if fault:
            # scripted transient faults (C19): list of outcomes for successive calls
            nxt, rest = fault[0], fault[1:]
            ip.write_loc(st, sref.loc, src.set(fault=rest))
            src = src.set(fault=rest)
            if nxt == "interrupted":
                st.events.append({"kind": "src_read", "pos": pos, "n": 0, "fault": "interrupted"})
                return err(Opaque.make("io_error", kind="Interrupted"))
            if isinstance(nxt, int):
                want = min(want, nxt)
        k = max(0, min(want, n - pos))
        data = src.get("data")
        vals = [data[pos + j] if data is not None else byte_val(pos + j) for j in range(k)]
        # write into the buffer window
        loc = bufref.loc
        base = 0
        proj = loc[-1]
        if proj and proj[-1][0] == "win":
            base = proj[-1][1]
            loc = loc[:-1] + (proj[:-1],)
        for j, v in enumerate(vals):
            ip.write_loc(st, loc[:-1] + (loc[-1] + (("i", base + j),),), v)
        ip.write_loc(st, sref.loc, src.set(pos=pos + k))
        st.events.append({"kind": "src_read", "pos": pos, "n": k, "want": want})
        return ok(IntVal.const(USIZE, k))

    S.src_read = src_read

    @S.pat(r"^std::io::Read::read$|^<std::io::cursor::Cursor<T> as std::io::Read>::read$|^no_std_io2?::io::(traits::)?Read::read$|^<no_std_io2?::io::cursor::Cursor<T> as no_std_io2?::io::(traits::)?Read>::read$")
    def read_on_source(ctx):
        sref, buf = ctx.args
        v = ctx.deref(sref)
        if isinstance(v, Opaque) and v.kind == "src":
            return ctx.ret(src_read(ctx.ip, ctx.st, sref, buf))
        if isinstance(v, AdtVal) and isinstance(sref, RefVal):
            # a generic `R: Read` that is a workspace reader on this path: its own read()
            fn = find_impl_fn(ctx.ip.prog, v.path, "io::Read", "read") or find_impl_fn(ctx.ip.prog, v.path, "Read", "read")
            if fn is not None:
                dest, target = ctx.dest, ctx.target
                ctx.ip.call_fn(ctx.st, fn, [sref, buf], on_return=lambda ip, st, rv: ip.finish_call(st, dest, target, rv))
                return None
        return NotImplemented

    @S.pat(r"^std::io::Seek::seek$|^<std::io::cursor::Cursor<T> as std::io::Seek>::seek$|^no_std_io2?::io::(traits::)?Seek::seek$")
    def seek_on_source(ctx):
        sref, pos = ctx.args
        v = ctx.deref(sref)
        if isinstance(v, Opaque) and v.kind == "src":
            pos = ctx.arg_split(1)
            if isinstance(pos, AdtVal) and pos.vname == "Current" and isinstance(pos.fields[0], IntVal) and pos.fields[0].is_const():
                d = pos.fields[0].cval()
                np = v.get("pos") + d
                ctx.st.events.append({"kind": "src_seek", "delta": d, "from": v.get("pos")})
                if np < 0:
                    return ctx.ret(err(Opaque.make("io_error", kind="InvalidInput")))
                ctx.ip.write_loc(ctx.st, sref.loc, v.set(pos=np))
                # the frame may start anywhere in the caller's stream: the absolute position reported by the source is the
                # frame-relative position plus an unknown non-negative base, so only its lower bound is known
                return ctx.ret(ok(IntVal(IntTy(64, False), np, (1 << 63) - 1)))
            raise Inconclusive("seek with non-constant offset")
        return NotImplemented

    @S.on("std::io::cursor::Cursor::<T>::new", "no_std_io2::io::cursor::Cursor::<T>::new", "no_std_io::io::cursor::Cursor::<T>::new")
    def cursor_new(ctx):
        a = ctx.args[0]
        elems = S.slice_elems(ctx, a) if isinstance(a, RefVal) else None
        if elems is not None:
            return ctx.ret(Opaque.make("src", data=tuple(elems), pos=0, n=len(elems), fault=()))
        return ctx.ret(Opaque.make("cursor_unknown", inner=a))

    # ------------------------------------------------------------------ inner read_exact
    def inner_read_exact(ip, st, inner_ref, nbytes, cont):
        """read exactly nbytes from the reader's inner source, then cont(ip, st, list_of_bytes | None on EOF | ('ioerr', v))"""
        inner = ip.read_loc(st, inner_ref.loc)
        if isinstance(inner, Opaque) and inner.kind == "src":
            bufloc = st.new_heap(ArrayVal([IntVal.const(U8, 0)] * nbytes, nbytes))
            bref = RefVal(bufloc, True, meta=IntVal.const(USIZE, nbytes))
            return _after_read(ip, st, inner_ref, bref, bufloc, nbytes, 0, src_read(ip, st, inner_ref, bref), cont, None)
        if isinstance(inner, AdtVal):
            fn = find_impl_fn(ip.prog, inner.path, "io::Read", "read") or find_impl_fn(ip.prog, inner.path, "Read", "read")
            if fn is None:
                raise Inconclusive("no Read impl found for %s" % inner.path)
            bufloc = st.new_heap(ArrayVal([IntVal.const(U8, 0)] * nbytes, nbytes))
            return _call_read(ip, st, fn, inner_ref, bufloc, nbytes, 0, cont)
        raise Inconclusive("reader over unknown inner %r" % (inner,))

    def _call_read(ip, st, fn, inner_ref, bufloc, nbytes, got, cont):
        if got == 0:
            bref = RefVal(bufloc, True, meta=IntVal.const(USIZE, nbytes))
        else:
            bref = RefVal(bufloc[:-1] + (bufloc[-1] + (("win", got, nbytes),),), True, meta=IntVal.const(USIZE, nbytes - got))

        def done(ip2, st2, rv):
            return _after_read(ip2, st2, inner_ref, bref, bufloc, nbytes, got, rv, cont, fn)
        ip.call_fn(st, fn, [inner_ref, bref], on_return=done)
        return None

    def _after_read(ip, st, inner_ref, bref, bufloc, nbytes, got, rv, cont, fn):
        if isinstance(rv, Choice):
            raise Inconclusive("inner read returned a choice")
        if isinstance(rv, AdtVal) and rv.path == RESULT:
            if rv.variant == 0 and isinstance(rv.fields[0], IntVal) and rv.fields[0].is_const():
                k = rv.fields[0].cval()
                if k == 0:
                    return cont(ip, st, None)
                got += k
                if got >= nbytes:
                    arr = ip.read_loc(st, bufloc)
                    return cont(ip, st, list(arr.elems))
                # short read: read_exact loops
                if fn is None:
                    bref2 = RefVal(bufloc[:-1] + (bufloc[-1] + (("win", got, nbytes),),), True, meta=IntVal.const(USIZE, nbytes - got))
                    return _after_read(ip, st, inner_ref, bref2, bufloc, nbytes, got, src_read(ip, st, inner_ref, bref2), cont, None)
                return _call_read(ip, st, fn, inner_ref, bufloc, nbytes, got, cont)
            if rv.variant == 1:
                e = rv.fields[0]
                if isinstance(e, Opaque) and e.kind == "io_error" and e.get("kind") == "Interrupted":
                    # read_exact retries on Interrupted
                    if fn is None:
                        return _after_read(ip, st, inner_ref, bref, bufloc, nbytes, got, src_read(ip, st, inner_ref, bref), cont, None)
                    return _call_read(ip, st, fn, inner_ref, bufloc, nbytes, got, cont)
                return cont(ip, st, ("ioerr", e))
        raise Inconclusive("inner read returned %r" % (rv,))

    S.inner_read_exact = inner_read_exact

    # ------------------------------------------------------------------ Reader
    @S.on("deku::reader::Reader::<'a, R>::new")
    def reader_new(ctx):
        return ctx.ret(Opaque.make("reader", inner=ctx.args[0], leftover=(), last=0, bits_read=0, skew=0))

    @S.on("deku::reader::Reader::<'a, R>::as_mut", "<deku::reader::Reader<'_, R> as core::convert::AsMut<R>>::as_mut")
    def reader_as_mut(ctx):
        rd = ctx.deref(ctx.args[0])
        if isinstance(rd, Opaque) and rd.kind == "reader" and isinstance(rd.get("inner"), RefVal):
            inner = rd.get("inner")
            return ctx.ret(RefVal(inner.loc, True, inner.meta))
        return NotImplemented

    def take_bits(ip, st, rref, n, cont):
        """consume n bits from the deku reader; cont(ip, st, bits_msb | None on EOF)"""
        rd = ip.read_loc(st, rref.loc)
        if not (isinstance(rd, Opaque) and rd.kind == "reader"):
            raise Inconclusive("deku read on unknown reader %r" % (rd,))
        lo = rd.get("leftover")
        if n <= len(lo):
            ip.write_loc(st, rref.loc, rd.set(leftover=tuple(lo[n:]), last=rd.get("last") + n, bits_read=rd.get("bits_read") + n))
            return cont(ip, st, list(lo[:n]))
        need = n - len(lo)
        nb = (need + 7) // 8

        def got(ip2, st2, data):
            if data is None or (isinstance(data, tuple) and data and data[0] == "ioerr"):
                return cont(ip2, st2, None if data is None else data)
            bits = list(lo)
            for b in data:
                bits.extend(byte_bits_msb(b))
            rd2 = ip2.read_loc(st2, rref.loc)
            ip2.write_loc(st2, rref.loc, rd2.set(leftover=tuple(bits[n:]), last=rd2.get("last") + n, bits_read=rd2.get("bits_read") + n))
            return cont(ip2, st2, bits[:n])
        return inner_read_exact(ip, st, rd.get("inner"), nb, got)

    S.take_bits = take_bits

    def parse_ctx(v):
        """(endian_little, nbits|None) from a deku ctx value"""
        little = HOST_LITTLE
        nbits = None
        explicit = False
        items = list(v.fields) if isinstance(v, TupleVal) else [v]
        for it in items:
            if isinstance(it, AdtVal):
                if it.path == "deku::ctx::Endian":
                    little = (it.variant == 0)
                    explicit = True
                elif it.path == "deku::ctx::BitSize":
                    x = it.fields[0]
                    nbits = x.cval() if isinstance(x, IntVal) else None
                    if nbits is None:
                        raise Inconclusive("non-constant BitSize")
                elif it.path == "deku::ctx::ByteSize":
                    x = it.fields[0]
                    nbits = x.cval() * 8 if isinstance(x, IntVal) and x.is_const() else None
                    if nbits is None:
                        raise Inconclusive("non-constant ByteSize")
        return little, nbits, explicit

    def prim_read(ctx, ty, ctxval, wrap):
        """shared implementation; wrap(value IntVal) -> result value"""
        rref = ctx.args[0]
        little, nbits, explicit = parse_ctx(ctxval)
        if nbits is None:
            nbits = ty.bits
        dest, target = ctx.dest, ctx.target
        if nbits > ty.bits or nbits == 0:
            return ctx.ret(deku_parse_err())
        fnp = ctx.fr.fn["path"]
        span = ctx.call.get("span")

        def cont(ip, st, bits):
            if bits is None:
                st.events.append({"kind": "deku_eof", "fn": fnp})
                return ip.finish_call(st, dest, target, deku_incomplete())
            if isinstance(bits, tuple):
                return ip.finish_call(st, dest, target, err(AdtVal("deku::error::DekuError", 6, [Top(None)], vname="Io")))
            rd = ip.read_loc(st, rref.loc)
            start = rd.get("bits_read") - nbits
            v = assemble(bits, little, ty)
            v = ip.reduce_int(st, v)
            if v.deps:
                v.tags = v.tags | frozenset([("rd", min(v.deps), max(v.deps) + 1)])
            st.events.append({"kind": "field_read", "nbits": nbits, "little": little, "explicit_endian": explicit, "ty": repr(ty),
                              "fn": fnp, "deps": v.deps, "span": span})
            return ip.finish_call(st, dest, target, wrap(ip, st, v))
        return take_bits(ctx.ip, ctx.st, rref, nbits, cont)

    @S.pat(r"^deku::impls::primitive::<impl deku::DekuReader<'_, .*> for (u8|u16|u32|u64|u128|usize)>::from_reader_with_ctx$|^deku::impls::primitive::<impl deku::DekuReader<'_> for (u8|u16|u32|u64|u128|usize)>::from_reader_with_ctx$")
    def prim_int(ctx):
        st_ty = ctx.callee.get("self_ty")
        ty = ty_of_json(st_ty) if st_ty else None
        if ty is None:
            import re
            m = re.search(r"for (u\d+|usize)>", ctx.path)
            ty = IntTy(64 if m.group(1) == "usize" else int(m.group(1)[1:]), False)
        return prim_read(ctx, ty, ctx.args[1], lambda ip, st, v: ok(v))

    @S.pat(r"^deku::impls::bool::<impl deku::DekuReader<'a, Ctx> for bool>::from_reader_with_ctx$")
    def prim_bool(ctx):
        def wrap(ip, st, v):
            if v.hi <= 1:
                b = IntVal(BOOL, v.lo, v.hi, v.vals, (v.bits[0],) if v.bits is not None else None, None, v.deps)
                if v.is_const():
                    b = IntVal.const(BOOL, v.lo)
                    b.deps = v.deps
                return ok(b)
            # values >= 2 are a parse error
            return Choice([((("guard", {"op": "bool_ok", "a": repr(v), "deps": v.deps}),), ok(IntVal(BOOL, 0, 1, frozenset([0, 1]), None, None, v.deps))),
                           ((("guard", {"op": "bool_bad", "a": repr(v), "deps": v.deps}),), deku_parse_err())])
        return prim_read(ctx, U8, ctx.args[1], wrap)

    @S.pat(r"^deku::impls::slice::<impl deku::DekuReader<'a, Ctx> for \[T; N\]>::from_reader_with_ctx$")
    def prim_array(ctx):
        # [T; N] with primitive T: N element reads
        st_ty = ctx.callee.get("self_ty")
        if not st_ty or st_ty.get("k") != "array":
            return NotImplemented
        ety = ty_of_json(st_ty["elem"])
        n = st_ty.get("len")
        if ety is None or n is None:
            raise Inconclusive("array reader of non-primitive elements")
        return read_many(ctx, ety, n, ctx.args[1], lambda elems: ArrayVal(elems, n, st_ty["elem"]))

    def read_many(ctx, ety, n, ectx, build):
        rref = ctx.args[0]
        little, nbits, explicit = parse_ctx(ectx)
        if nbits is None:
            nbits = ety.bits
        dest, target = ctx.dest, ctx.target
        fnp = ctx.fr.fn["path"]
        acc = []

        def step(ip, st):
            if len(acc_for(st)) == n:
                return ip.finish_call(st, dest, target, ok(build(list(acc_for(st)))))

            def cont(ip2, st2, bits):
                if bits is None or isinstance(bits, tuple):
                    st2.events.append({"kind": "deku_eof", "fn": fnp})
                    return ip2.finish_call(st2, dest, target, deku_incomplete())
                v = ip2.reduce_int(st2, assemble(bits, little, ety))
                st2.events.append({"kind": "field_read", "nbits": nbits, "little": little, "explicit_endian": explicit, "ty": repr(ety),
                                   "fn": fnp, "deps": v.deps, "span": ctx.call.get("span")})
                set_acc(st2, acc_for(st2) + (v,))
                return step(ip2, st2)
            return take_bits(ip, st, rref, nbits, cont)
        # accumulators live in the state's heap so forks stay independent
        cell = ctx.st.new_heap(TupleVal(()))

        def acc_for(st):
            return st.heap[cell[1]].fields

        def set_acc(st, t):
            st.heap[cell[1]] = TupleVal(t)
        return step(ctx.ip, ctx.st)

    @S.pat(r"^deku::impls::tuple::<impl deku::DekuReader<'a, Ctx> for \(A, B(, \w)*\)>::from_reader_with_ctx$")
    def prim_tuple(ctx):
        st_ty = ctx.callee.get("self_ty")
        if not st_ty or st_ty.get("k") != "tuple":
            return NotImplemented
        plan = []   # (elem int type, count, shape)
        for e in st_ty["elems"]:
            t = ty_of_json(e)
            if t is not None:
                plan.append((t, 1, "int"))
            elif e.get("k") == "array" and ty_of_json(e["elem"]) is not None and e.get("len") is not None:
                plan.append((ty_of_json(e["elem"]), e["len"], "array"))
            else:
                raise Inconclusive("tuple reader with unsupported element %s" % ty_str(e))
        widths = set(t.bits for t, _n, _s in plan)
        if len(widths) != 1:
            raise Inconclusive("tuple reader with mixed element widths")
        ety = plan[0][0]
        total = sum(n for _t, n, _s in plan)

        def build(elems):
            out = []
            i = 0
            for t, n, shape in plan:
                if shape == "int":
                    out.append(elems[i])
                else:
                    out.append(ArrayVal(elems[i:i + n], n))
                i += n
            return TupleVal(out)
        return read_many(ctx, ety, total, ctx.args[1], build)

    @S.pat(r"^deku::impls::vec::<impl deku::DekuReader<'a, \(deku::ctx::Limit<T, Predicate>, Ctx\)> for alloc::vec::Vec<T>>::from_reader_with_ctx$")
    def prim_vec(ctx):
        st_ty = ctx.callee.get("self_ty")
        ety = ty_of_json(st_ty["args"][0]) if st_ty and st_ty.get("args") else None
        c = ctx.arg_split(1)
        limit = c.fields[0] if isinstance(c, TupleVal) else None
        ectx = c.fields[1] if isinstance(c, TupleVal) and len(c.fields) > 1 else UNIT
        cnt = None
        if isinstance(limit, AdtVal) and limit.vname == "Count" and isinstance(limit.fields[0], IntVal) and limit.fields[0].is_const():
            cnt = limit.fields[0].cval()
        if isinstance(limit, Opaque) and limit.kind == "limit_count":
            cnt = limit.get("n")
        if ety is None or cnt is None:
            raise Inconclusive("Vec reader with unsupported limit %r" % (limit,))
        ctx.ip.event(ctx.st, "alloc", size=IntVal.const(USIZE, cnt), fn=ctx.fr.fn["path"], callee="Vec::with_capacity(count)", span=ctx.call.get("span"))
        return read_many(ctx, ety, cnt, ectx, lambda elems: Opaque.make("vec", elems=tuple(elems), n=len(elems), summary=None))

    @S.on("deku::ctx::Limit::<T, Predicate>::new_count", "deku::ctx::Limit::<T, for<'a> fn(&'a T) -> bool>::new_count")
    def limit_new_count(ctx):
        a = ctx.args[0]
        if isinstance(a, IntVal) and a.is_const():
            return ctx.ret(Opaque.make("limit_count", n=a.cval()))
        raise Inconclusive("non-constant count limit %r" % (a,))

    @S.pat(r"^<deku::ctx::Limit<T, .*> as core::convert::From<usize>>::from$")
    def limit_from(ctx):
        a = ctx.args[0]
        if isinstance(a, IntVal) and a.is_const():
            return ctx.ret(Opaque.make("limit_count", n=a.cval()))
        raise Inconclusive("non-constant count limit %r" % (a,))

    @S.on("deku::reader::Reader::<'a, R>::read_bits")
    def reader_read_bits(ctx):
        rref, amt = ctx.args
        if not (isinstance(amt, IntVal) and amt.is_const()):
            raise Inconclusive("read_bits with non-constant amount")
        n = amt.cval()
        if n == 0:
            return ctx.ret(ok(NONE))
        dest, target = ctx.dest, ctx.target
        fnp = ctx.fr.fn["path"]

        def cont(ip, st, bits):
            if bits is None or isinstance(bits, tuple):
                st.events.append({"kind": "deku_eof", "fn": fnp})
                return ip.finish_call(st, dest, target, deku_incomplete())
            st.events.append({"kind": "pad_read", "nbits": n, "fn": fnp})
            return ip.finish_call(st, dest, target, ok(some(Opaque.make("bitvec", bits=tuple(bits)))))
        return take_bits(ctx.ip, ctx.st, rref, n, cont)

    @S.on("deku::reader::Reader::<'a, R>::skip_bits")
    def reader_skip_bits(ctx):
        rref, amt = ctx.args
        if not (isinstance(amt, IntVal) and amt.is_const()):
            raise Inconclusive("skip_bits with non-constant amount")
        n = amt.cval()
        if n == 0:
            return ctx.ret(ok(UNIT))
        dest, target = ctx.dest, ctx.target

        def cont(ip, st, bits):
            if bits is None or isinstance(bits, tuple):
                return ip.finish_call(st, dest, target, deku_incomplete())
            return ip.finish_call(st, dest, target, ok(UNIT))
        return take_bits(ctx.ip, ctx.st, rref, n, cont)

    @S.on("deku::reader::Reader::<'a, R>::read_bytes")
    def reader_read_bytes(ctx):
        rref, amt, buf = ctx.args
        if not (isinstance(amt, IntVal) and amt.is_const()):
            raise Inconclusive("read_bytes with non-constant amount")
        n = amt.cval() * 8
        dest, target = ctx.dest, ctx.target
        fnp = ctx.fr.fn["path"]
        if n == 0:
            return ctx.ret(ok(Opaque.make("reader_ret", kind="Bytes")))

        def cont(ip, st, bits):
            if bits is None or isinstance(bits, tuple):
                st.events.append({"kind": "deku_eof", "fn": fnp})
                return ip.finish_call(st, dest, target, deku_incomplete())
            st.events.append({"kind": "pad_read", "nbits": n, "fn": fnp})
            return ip.finish_call(st, dest, target, ok(Opaque.make("reader_ret", kind="Bytes")))
        return take_bits(ctx.ip, ctx.st, rref, n, cont)

    @S.on("deku::reader::Reader::<'a, R>::seek_last_read")
    def reader_seek_last_read(ctx):
        rref = ctx.args[0]
        ip, st = ctx.ip, ctx.st
        rd = ip.read_loc(st, rref.loc)
        if not (isinstance(rd, Opaque) and rd.kind == "reader"):
            raise Inconclusive("seek_last_read on unknown reader")
        number = rd.get("last")
        amt = number // 8 + (1 if number % 8 else 0)
        dest, target = ctx.dest, ctx.target
        pos_before = rd.get("bits_read")
        fnp = ctx.fr.fn["path"]
        span = ctx.call.get("span")
        inner_ref = rd.get("inner")
        inner = ip.read_loc(st, inner_ref.loc)
        seekfrom = AdtVal("std::io::SeekFrom", 2, [IntVal.const(IntTy(64, True), -amt)], vname="Current")

        def after(ip2, st2, rv):
            rd2 = ip2.read_loc(st2, rref.loc)
            after_bit = pos_before + len(rd.get("leftover")) - 8 * amt
            start_bit = pos_before - number
            st2.events.append({"kind": "seek_last_read", "last": number, "bytes": amt, "bits_read_before": pos_before,
                               "leftover_before": len(rd.get("leftover")), "fn": fnp, "span": span, "skew_before": rd.get("skew", 0)})
            rd2 = rd2.set(skew=rd2.get("skew", 0) + (start_bit - after_bit))
            if isinstance(rv, AdtVal) and rv.path == RESULT and rv.variant == 1:
                return ip2.finish_call(st2, dest, target, err(rv.fields[0]))
            ip2.write_loc(st2, rref.loc, rd2.set(leftover=(), bits_read=rd2.get("bits_read") - number))
            return ip2.finish_call(st2, dest, target, ok(UNIT))
        if isinstance(inner, Opaque) and inner.kind == "src":
            np = inner.get("pos") - amt
            st.events.append({"kind": "src_seek", "delta": -amt, "from": inner.get("pos")})
            if np < 0:
                return after(ip, st, err(Opaque.make("io_error", kind="InvalidInput")))
            ip.write_loc(st, inner_ref.loc, inner.set(pos=np))
            return after(ip, st, ok(IntVal.const(IntTy(64, False), np)))
        if isinstance(inner, AdtVal):
            fn = find_impl_fn(ip.prog, inner.path, "io::Seek", "seek") or find_impl_fn(ip.prog, inner.path, "Seek", "seek")
            if fn is None:
                raise Inconclusive("no Seek impl for %s" % inner.path)
            ip.call_fn(st, fn, [inner_ref, seekfrom], on_return=after)
            return None
        raise Inconclusive("seek_last_read over unknown inner")

    @S.pat(r"^std::io::Read::read_to_end$|^no_std_io2?::io::(traits::)?Read::read_to_end$")
    def read_to_end(ctx):
        """default read_to_end over a workspace Read impl: read calls until Ok(0); appends to the Vec"""
        sref, vref = ctx.args
        ip, st = ctx.ip, ctx.st
        inner = ip.read_loc(st, sref.loc)
        dest, target = ctx.dest, ctx.target
        if isinstance(inner, Opaque) and inner.kind == "src":
            remaining = inner.get("n") - inner.get("pos")
        elif isinstance(inner, AdtVal):
            remaining = _remaining_of(ip, st, inner)
        else:
            raise Inconclusive("read_to_end on unknown reader")
        if remaining is None:
            raise Inconclusive("read_to_end: cannot bound remaining input")
        total = {"n": 0}

        def finish(ip2, st2, data):
            if isinstance(data, tuple) and data and data[0] == "ioerr":
                return ip2.finish_call(st2, dest, target, err(data[1]))
            got = [] if data is None else data
            vec = ip2.read_loc(st2, vref.loc)
            if not (isinstance(vec, Opaque) and vec.get("elems") is not None):
                raise Inconclusive("read_to_end into unknown vec")
            es = vec.get("elems") + tuple(got)
            ip2.write_loc(st2, vref.loc, vec.set(elems=es, n=len(es)))
            st2.events.append({"kind": "read_to_end", "n": len(got)})
            if got:
                # the final probing read that returns Ok(0)
                return inner_read_exact(ip2, st2, sref, 1, lambda ip3, st3, d3: ip3.finish_call(st3, dest, target, ok(IntVal.const(USIZE, len(got)))) if d3 is None else _bad())
            return ip2.finish_call(st2, dest, target, ok(IntVal.const(USIZE, 0)))
        if remaining == 0:
            return inner_read_exact(ip, st, sref, 1, lambda ip2, st2, d: finish(ip2, st2, None if d is None else d))
        return inner_read_exact(ip, st, sref, remaining, finish)

    def _bad():
        raise Inconclusive("read_to_end: source produced data after end")

    def _remaining_of(ip, st, v):
        """remaining bytes of the innermost byte source reachable from a wrapper struct"""
        if isinstance(v, Opaque) and v.kind == "src":
            return v.get("n") - v.get("pos")
        if isinstance(v, AdtVal):
            for f in v.fields:
                if isinstance(f, RefVal):
                    f = ip.read_loc(st, f.loc)
                r = _remaining_of(ip, st, f)
                if r is not None:
                    return r
        return None

    @S.on("std::io::error::Error::kind", "no_std_io2::io::error::Error::kind", "no_std_io::io::error::Error::kind")
    def io_error_kind(ctx):
        e = ctx.deref(ctx.args[0])
        if isinstance(e, Opaque) and e.kind == "io_error":
            return ctx.ret(Opaque.make("io_error_kind", kind=e.get("kind")))
        return ctx.ret(ctx.top_ret())

    @S.on("deku::error::NeedSize::new")
    def needsize_new(ctx):
        return ctx.ret(Opaque.make("needsize", bits=ctx.args[0]))
