"""BTreeMap / time model used by the tracker analyses."""
from .values import (BOOL, U8, USIZE, AdtVal, ArrayVal, Choice, FloatVal, IntTy, IntVal, Opaque, RefVal, Top, TupleVal, UNIT,
                     deps_of, fp, ty_of_json)
from .interp import Inconclusive, NeedSplit, top_of
from .summaries import OPTION, RESULT, some, NONE, ok, err

ENTRY = "alloc::collections::btree::map::entry::Entry"


def new_map():
    return Opaque.make("btreemap", cells=(), complete=False)


def register(S):
    @S.on("alloc::collections::btree::map::BTreeMap::<K, V>::new")
    def map_new(ctx):
        return ctx.ret(Opaque.make("btreemap", cells=(), complete=True))

    @S.on("alloc::collections::btree::map::BTreeMap::<K, V, A>::entry")
    def map_entry(ctx):
        mref, key = ctx.args
        m = ctx.deref(mref)
        if not (isinstance(m, Opaque) and m.kind == "btreemap"):
            raise Inconclusive("entry() on unknown map %r" % (m,))
        kf = fp(key)
        ctx.ip.event(ctx.st, "map_entry", key=key, fn=ctx.fr.fn["path"], span=ctx.call.get("span"))
        for k2, cell in m.get("cells"):
            if k2 == kf:
                return ctx.ret(AdtVal(ENTRY, 1, [Opaque.make("occupied", map=mref, cell=cell.loc, key=key)], vname="Occupied"))
        outs = []
        s_v = ctx.st
        if not m.get("complete"):
            s_o = ctx.st.copy()
            # an existing record with unknown content
            vty = None
            targs = ctx.callee.get("targs") or []
            if len(targs) >= 2:
                vty = targs[1]
            cell = s_o.new_heap(existing_value(ctx.ip, s_o, vty))
            m2 = ctx.ip.read_loc(s_o, mref.loc)
            ctx.ip.write_loc(s_o, mref.loc, m2.set(cells=m2.get("cells") + ((kf, RefVal(cell, True)),)))
            s_o.events.append({"kind": "map_vacancy", "vacant": False, "key": key})
            ctx.ip.finish_call(s_o, ctx.dest, ctx.target, AdtVal(ENTRY, 1, [Opaque.make("occupied", map=mref, cell=cell, key=key)], vname="Occupied"))
            outs.append(s_o)
        s_v.events.append({"kind": "map_vacancy", "vacant": True, "key": key})
        ctx.ip.finish_call(s_v, ctx.dest, ctx.target, AdtVal(ENTRY, 0, [Opaque.make("vacant", map=mref, key=key, vty=(ctx.callee.get("targs") or [None, None])[1])], vname="Vacant"))
        outs.append(s_v)
        return outs

    def existing_value(ip, st, vty, prefix=""):
        """symbolic pre-existing map value: every field unknown; counters start at the representative value 1000 when counter_delta is on.
        Each unknown carries ("existing", field name) and ("existing_path", dotted path from the record)"""
        if isinstance(vty, dict) and vty.get("k") == "adt":
            adt = ip.prog.adts.get(vty["path"])
            if adt and adt["kind"] == "struct":
                fields = []
                for f in adt["variants"][0]["fields"]:
                    t = ty_of_json(f["ty"])
                    if t is not None and ip.opts.get("counter_delta") and f["name"] == "num_messages":
                        # an arbitrary non-zero representative count (not 0, so a reset to the default is visible as a wrong delta)
                        fields.append(IntVal.const(t, 1000))
                    elif isinstance(f["ty"], dict) and f["ty"].get("k") == "adt" and f["ty"]["path"] in ip.prog.adts and ip.prog.adts[f["ty"]["path"]]["kind"] == "struct":
                        fields.append(existing_value(ip, st, f["ty"], prefix + f["name"] + "."))
                    elif isinstance(f["ty"], dict) and f["ty"].get("k") == "array" and f["ty"].get("len") is not None and f["ty"]["len"] <= 8:
                        fields.append(ArrayVal([top_of(f["ty"]["elem"], tags=frozenset([("existing", "%s[%d]" % (f["name"], j)), ("existing_path", "%s%s[%d]" % (prefix, f["name"], j))])) for j in range(f["ty"]["len"])], f["ty"]["len"], f["ty"]["elem"]))
                    else:
                        fields.append(top_of(f["ty"], tags=frozenset([("existing", f["name"]), ("existing_path", prefix + f["name"])])))
                return AdtVal(vty["path"], 0, fields, vname=adt["variants"][0]["name"])
        return top_of(vty)

    S.existing_value = existing_value

    @S.on("alloc::collections::btree::map::entry::Entry::<'a, K, V, A>::or_default", "alloc::collections::btree::map::entry::Entry::<'a, K, V, A>::or_insert_with",
          "alloc::collections::btree::map::entry::Entry::<'a, K, V, A>::or_insert")
    def entry_or_default(ctx):
        e = ctx.arg_split(0)
        if not isinstance(e, AdtVal) or e.path != ENTRY:
            raise Inconclusive("or_default on unknown entry %r" % (e,))
        inner = e.fields[0]
        if e.variant == 1:
            return ctx.ret(RefVal(inner.get("cell"), True))
        mref = inner.get("map")
        key = inner.get("key")
        vty = inner.get("vty")
        dest, target = ctx.dest, ctx.target
        ip, st = ctx.ip, ctx.st

        def insert(ip2, st2, val):
            cell = st2.new_heap(val)
            m2 = ip2.read_loc(st2, mref.loc)
            ip2.write_loc(st2, mref.loc, m2.set(cells=m2.get("cells") + ((fp(key), RefVal(cell, True)),)))
            st2.events.append({"kind": "map_insert", "key": key})
            return ip2.finish_call(st2, dest, target, RefVal(cell, True))
        if ctx.path.endswith("or_insert"):
            return insert(ip, st, ctx.args[1])
        if ctx.path.endswith("or_insert_with"):
            if ctx.call_closure(ctx.args[1], [], lambda ip2, st2, rv: insert(ip2, st2, rv)):
                return None
            raise Inconclusive("or_insert_with: cannot call closure")
        # Default::default of the value type
        fn = None
        if isinstance(vty, dict) and vty.get("k") == "adt":
            for f in ip.prog.fns.values():
                im = f.get("impl")
                if f.get("name") == "default" and im and im.get("trait_def") == "core::default::Default" and im["self_ty"].get("k") == "adt" and im["self_ty"]["path"] == vty["path"]:
                    fn = f
                    break
        if fn is None:
            raise Inconclusive("or_default: no Default impl found for %r" % (vty,))
        ip.call_fn(st, fn, [], on_return=lambda ip2, st2, rv: insert(ip2, st2, rv))
        return None

    @S.on("alloc::collections::btree::map::entry::VacantEntry::<'a, K, V, A>::insert", "alloc::collections::btree::map::entry::VacantEntry::<'a, K, V, A>::insert_entry")
    def vacant_insert(ctx):
        inner = ctx.args[0]
        if not (isinstance(inner, Opaque) and inner.kind == "vacant"):
            return NotImplemented
        mref, key = inner.get("map"), inner.get("key")
        st = ctx.st
        cell = st.new_heap(ctx.args[1])
        m2 = ctx.ip.read_loc(st, mref.loc)
        ctx.ip.write_loc(st, mref.loc, m2.set(cells=m2.get("cells") + ((fp(key), RefVal(cell, True)),)))
        st.events.append({"kind": "map_insert", "key": key})
        if ctx.path.endswith("insert_entry"):
            return ctx.ret(Opaque.make("occupied", map=mref, cell=cell, key=key))
        return ctx.ret(RefVal(cell, True))

    @S.pat(r"^alloc::collections::btree::map::entry::OccupiedEntry::<'a, K, V, A>::(into_mut|get_mut|get)$")
    def occupied_ref(ctx):
        inner = ctx.args[0]
        if isinstance(inner, RefVal):
            inner = ctx.deref(inner)
        if not (isinstance(inner, Opaque) and inner.kind == "occupied"):
            return NotImplemented
        return ctx.ret(RefVal(inner.get("cell"), not ctx.path.endswith("::get")))

    @S.pat(r"^alloc::collections::btree::map::entry::(Occupied|Vacant)Entry::<'a, K, V, A>::key$")
    def entry_key(ctx):
        inner = ctx.args[0]
        if isinstance(inner, RefVal):
            inner = ctx.deref(inner)
        if isinstance(inner, Opaque) and inner.kind in ("occupied", "vacant"):
            return ctx.ret(RefVal(ctx.st.new_heap(inner.get("key")), False))
        return NotImplemented

    @S.on("alloc::collections::btree::map::BTreeMap::<K, V, A>::get")
    def map_get(ctx):
        mref, kref = ctx.args
        m = ctx.deref(mref)
        key = ctx.deref(kref)
        if isinstance(m, Opaque) and m.kind == "btreemap":
            kf = fp(key)
            for k2, cell in m.get("cells"):
                if k2 == kf:
                    ctx.st.events.append({"kind": "map_get", "found": True, "key_loc": kref.loc if isinstance(kref, RefVal) else None, "fn": ctx.fr.fn["path"]})
                    return ctx.ret(some(RefVal(cell.loc, False)))
            if m.get("complete"):
                return ctx.ret(NONE)
            s_some, s_none = ctx.st.copy(), ctx.st
            vty = (ctx.callee.get("targs") or [None, None])[1]
            cell = s_some.new_heap(existing_value(ctx.ip, s_some, vty))
            m2 = ctx.ip.read_loc(s_some, mref.loc)
            ctx.ip.write_loc(s_some, mref.loc, m2.set(cells=m2.get("cells") + ((kf, RefVal(cell, True)),)))
            s_some.events.append({"kind": "map_get", "found": True, "key_loc": kref.loc if isinstance(kref, RefVal) else None, "fn": ctx.fr.fn["path"]})
            return ctx.ret_states([(s_some, some(RefVal(cell, False))), (s_none, NONE)])
        return ctx.ret(ctx.top_ret())

    @S.on("alloc::collections::btree::map::BTreeMap::<K, V, A>::len")
    def map_len(ctx):
        return ctx.ret(IntVal(USIZE, 0, (1 << 40), tags=frozenset([("map_len",)])))

    @S.on("alloc::collections::btree::map::BTreeMap::<K, V, A>::is_empty")
    def map_is_empty(ctx):
        return ctx.ret(IntVal.top(BOOL))

    @S.on("alloc::collections::btree::map::BTreeMap::<K, V, A>::keys", "alloc::collections::btree::map::BTreeMap::<K, V, A>::iter",
          "alloc::collections::btree::map::BTreeMap::<K, V, A>::values")
    def map_iter(ctx):
        kind = ctx.path.rsplit("::", 1)[1]
        targs = ctx.callee.get("targs") or [None, None]
        return ctx.ret(Opaque.make("map_iter", map=ctx.args[0], what=kind, kty=targs[0], vty=targs[1] if len(targs) > 1 else None, yielded=0))

    def btree_pull(ip, st, it):
        """advance a BTreeMap iterator: one generic element, then exhaustion (the loop body is analysed for an arbitrary element)"""
        from .sum_iter import END
        m0 = ip.read_loc(st, it.get("map").loc) if isinstance(it.get("map"), RefVal) else None
        if isinstance(m0, Opaque) and m0.kind == "btreemap" and m0.get("complete") and m0.get("keys") is not None and len(m0.get("keys")) == len(m0.get("cells")):
            # a map whose whole contents are known: the iteration visits exactly its entries, in order
            i = it.get("yielded")
            if i >= len(m0.get("keys")):
                return [(st, it, END)]
            kcell = st.new_heap(m0.get("keys")[i])
            vref = m0.get("cells")[i][1]
            what = it.get("what")
            v = RefVal(kcell, False) if what == "keys" else (RefVal(vref.loc, False) if what == "values" else TupleVal([RefVal(kcell, False), RefVal(vref.loc, False)]))
            return [(st, it.set(yielded=i + 1), v)]
        if it.get("yielded") >= 1:
            return [(st, it, END)]
        s_some, s_none = st.copy(), st
        it2 = it.set(yielded=1)
        k = top_of(it.get("kty"), tags=frozenset([("map_key",)]))
        if isinstance(it.get("kty"), dict) and it.get("kty").get("path") == "adsb_deku::ICAO":
            k = AdtVal("adsb_deku::ICAO", 0, [ArrayVal([IntVal.top(U8, tags=frozenset([("map_key", j)])) for j in range(3)], 3)], vname="ICAO")
        kcell = s_some.new_heap(k)
        vcell = s_some.new_heap(existing_value(ip, s_some, it.get("vty")))
        mref = it.get("map")
        m2 = ip.read_loc(s_some, mref.loc)
        if isinstance(m2, Opaque) and m2.kind == "btreemap":
            ip.write_loc(s_some, mref.loc, m2.set(cells=m2.get("cells") + ((fp(k), RefVal(vcell, True)),)))
        what = it.get("what")
        if what == "keys":
            v = RefVal(kcell, False)
        elif what == "values":
            v = RefVal(vcell, False)
        else:
            v = TupleVal([RefVal(kcell, False), RefVal(vcell, False)])
        return [(s_some, it2, v), (s_none, it2, END)]

    S.btree_pull = btree_pull

    @S.pat(r"^<alloc::collections::btree::map::(Keys|Iter|Values)<'a, K, V> as core::iter::traits::iterator::Iterator>::next$")
    def map_iter_next(ctx):
        from .sum_iter import END
        itref = ctx.args[0]
        it = ctx.deref(itref)
        if not (isinstance(it, Opaque) and it.kind == "map_iter"):
            return ctx.ret(ctx.top_ret())
        outs = []
        for s, it2, e in btree_pull(ctx.ip, ctx.st, it):
            ctx.ip.write_loc(s, itref.loc, it2)
            ctx.ip.finish_call(s, ctx.dest, ctx.target, NONE if e is END else some(e))
            outs.append(s)
        return outs

    @S.on("alloc::collections::btree::map::BTreeMap::<K, V, A>::retain")
    def map_retain(ctx):
        mref, clos = ctx.args[0], ctx.args[1]
        ip, st = ctx.ip, ctx.st
        targs = ctx.callee.get("targs") or [None, None]
        k = top_of(targs[0], tags=frozenset([("map_key",)]))
        kcell = st.new_heap(k)
        vcell = st.new_heap(existing_value(ip, st, targs[1] if len(targs) > 1 else None))
        dest, target = ctx.dest, ctx.target
        ip.event(st, "map_retain", fn=ctx.fr.fn["path"])

        def done(ip2, st2, rv):
            st2.events.append({"kind": "retain_result", "value": rv, "facts": tuple(st2.pc.log)})
            return ip2.finish_call(st2, dest, target, UNIT)
        if ctx.call_closure(clos, [RefVal(kcell, False), RefVal(vcell, True)], done):
            return None
        raise Inconclusive("retain: cannot call closure")

    @S.pat(r"^alloc::collections::btree::map::BTreeMap::<K, V, A>::(insert|remove|clear|append|pop_first|pop_last|get_mut|iter_mut|values_mut|split_off|remove_entry|first_entry|last_entry|extract_if|extend)$")
    def map_mutation(ctx):
        karg = ctx.args[1] if len(ctx.args) > 1 else None
        ctx.ip.event(ctx.st, "map_mutation", method=ctx.path.rsplit("::", 1)[1], fn=ctx.fr.fn["path"], span=ctx.call.get("span"),
                     key_loc=karg.loc if isinstance(karg, RefVal) else None)
        mref = ctx.args[0]
        if isinstance(mref, RefVal):
            ctx.ip.write_loc(ctx.st, mref.loc, Opaque.make("btreemap", cells=(), complete=False))
        return ctx.ret(ctx.top_ret())

    # ------------------------------------------------------------------ time
    @S.on("std::time::SystemTime::elapsed")
    def systime_elapsed(ctx):
        s_ok, s_err = ctx.st, ctx.st.copy()
        d = Opaque.make("duration", of=ctx.deref(ctx.args[0]))
        return ctx.ret_states([(s_ok, ok(d)), (s_err, err(Top(None)))])

    @S.on("core::time::Duration::from_secs", "core::time::Duration::from_millis", "core::time::Duration::from_micros", "core::time::Duration::from_nanos",
          "core::time::Duration::from_secs_f64", "core::time::Duration::from_secs_f32")
    def duration_from(ctx):
        return ctx.ret(Opaque.make("duration_const", unit=ctx.path.rsplit("from_", 1)[1], n=ctx.args[0]))

    @S.pat(r"^<core::time::Duration as core::cmp::PartialOrd>::(lt|le|gt|ge|partial_cmp)$")
    def duration_cmp(ctx):
        a, b = ctx.deref(ctx.args[0]), ctx.deref(ctx.args[1])
        op = ctx.path.rsplit("::", 1)[1]
        r = IntVal(BOOL, 0, 1, frozenset([0, 1]), None, None, deps_of(a) | deps_of(b), cmp=("dur_" + op, a, b))
        r.tags = frozenset([("duration_cmp", op)])
        ctx.ip.event(ctx.st, "duration_cmp", op=op, a=a, b=b, fn=ctx.fr.fn["path"])
        return ctx.ret(r)
