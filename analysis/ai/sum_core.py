"""core / alloc summaries."""
from .values import (BOOL, U8, USIZE, AdtVal, ArrayVal, Choice, FloatVal, IntTy, IntVal, Lin, Opaque, RefVal, Top,
                     TupleVal, UNIT, ZERO, ONE, deps_of, ty_of_json, ty_str, fp)
from .interp import Inconclusive, NeedSplit, top_of, join_val
from .summaries import OPTION, RESULT, CFLOW, some, NONE, ok, err, is_variant


def split_enum_top(ctx, i, path, variants):
    """argument i is an unknown Option/Result: fork the caller state over its variants.
    variants: list of (idx, name, n_fields). Returns list of states to re-run, or None if concrete."""
    a = ctx.args[i]
    if isinstance(a, Choice):
        f0 = a.alts[0][1]
        if isinstance(f0, AdtVal) and f0.variant is not None and all(
                isinstance(x, AdtVal) and x.path == f0.path and x.variant == f0.variant for _d, x in a.alts):
            # same variant in every alternative: expose as one AdtVal whose fields are choices
            from .interp import collapse_choice
            fields = [collapse_choice([(d, x.fields[k]) for d, x in a.alts]) for k in range(len(f0.fields))]
            if not f0.fields:
                ctx.st.pc.apply_fact(("or", tuple(tuple(d) for d, _x in a.alts)))
            ctx.args[i] = AdtVal(f0.path, f0.variant, fields, f0.kind, f0.vname)
            return None
    a = ctx.arg_split(i)
    target = a
    loc = None
    if isinstance(a, RefVal):
        loc = a.loc
        target = ctx.ip.read_loc(ctx.st, loc)
        if isinstance(target, Choice):
            raise NeedSplit(loc)
    if isinstance(target, AdtVal) and target.variant is not None:
        return None
    # materialise
    op = ctx.call["args"][i]
    pl = op.get("move") or op.get("copy")
    if loc is None:
        if pl is None:
            return None
        loc = ctx.ip.place_loc(ctx.st, ctx.fr, pl)
    tyj = getattr(target, "ty", None)
    targs = tyj.get("args", []) if isinstance(tyj, dict) else []
    d = deps_of(target)
    tags = getattr(target, "tags", frozenset())
    outs = []
    for idx, name, nf in variants:
        s = ctx.st.copy()
        fields = []
        for k in range(nf):
            # Option<T>: Some(T); Result<T,E>: Ok(T)/Err(E)
            fty = None
            if path == OPTION and targs:
                fty = targs[0]
            elif path == RESULT and len(targs) >= 2:
                fty = targs[idx]
            fields.append(top_of(fty, d, tags))
        ctx.ip.write_loc(s, loc, AdtVal(path, idx, fields, vname=name))
        outs.append(s)
    return outs


OPT_VARS = [(0, "None", 0), (1, "Some", 1)]
RES_VARS = [(0, "Ok", 1), (1, "Err", 1)]


def register(S):
    # ---------------------------------------------------------------- Try / FromResidual
    @S.on("<core::result::Result<T, E> as core::ops::try_trait::Try>::branch")
    def try_branch_result(ctx):
        r = split_enum_top(ctx, 0, RESULT, RES_VARS)
        if r is not None:
            return r
        a = ctx.deref(ctx.args[0]) if isinstance(ctx.args[0], RefVal) else ctx.args[0]
        if a.variant == 0:
            return ctx.ret(AdtVal(CFLOW, 0, [a.fields[0]], vname="Continue"))
        return ctx.ret(AdtVal(CFLOW, 1, [AdtVal(RESULT, 1, [a.fields[0]], vname="Err")], vname="Break"))

    @S.on("<core::option::Option<T> as core::ops::try_trait::Try>::branch")
    def try_branch_option(ctx):
        r = split_enum_top(ctx, 0, OPTION, OPT_VARS)
        if r is not None:
            return r
        a = ctx.args[0]
        if a.variant == 1:
            return ctx.ret(AdtVal(CFLOW, 0, [a.fields[0]], vname="Continue"))
        return ctx.ret(AdtVal(CFLOW, 1, [NONE], vname="Break"))

    @S.pat(r"as core::ops::try_trait::FromResidual<core::result::Result<core::convert::Infallible, \w+>>>::from_residual")
    def from_residual_result(ctx):
        a = ctx.arg_split(0)
        if isinstance(a, AdtVal) and a.path == RESULT:
            return ctx.ret(AdtVal(RESULT, 1, [a.fields[0] if a.fields else Top(None)], vname="Err"))
        return ctx.ret(AdtVal(RESULT, 1, [Top(None, deps_of(a))], vname="Err"))

    @S.pat(r"as core::ops::try_trait::FromResidual<core::option::Option<core::convert::Infallible>>>::from_residual")
    def from_residual_option(ctx):
        return ctx.ret(NONE)

    # ---------------------------------------------------------------- Option / Result combinators
    def opt_like(ctx, i=0):
        a = ctx.arg_split(i)
        if isinstance(a, AdtVal) and a.path in (OPTION, RESULT) and a.variant is not None:
            return a
        return None

    @S.on("core::option::Option::<T>::map")
    def option_map(ctx):
        r = split_enum_top(ctx, 0, OPTION, OPT_VARS)
        if r is not None:
            return r
        a = ctx.args[0]
        if a.variant == 0:
            return ctx.ret(NONE)
        dest, target = ctx.dest, ctx.target

        def done(ip, st, rv):
            return ip.finish_call(st, dest, target, some(rv))
        if ctx.call_closure(ctx.args[1], [a.fields[0]], done):
            return None
        return ctx.ret(some(ctx.top_ret()))

    @S.on("core::option::Option::<T>::and_then")
    def option_and_then(ctx):
        r = split_enum_top(ctx, 0, OPTION, OPT_VARS)
        if r is not None:
            return r
        a = ctx.args[0]
        if a.variant == 0:
            return ctx.ret(NONE)
        dest, target = ctx.dest, ctx.target

        def done(ip, st, rv):
            return ip.finish_call(st, dest, target, rv)
        if ctx.call_closure(ctx.args[1], [a.fields[0]], done):
            return None
        return ctx.ret(ctx.top_ret())

    def fork_bool(ctx, cond):
        """-> [(state, truth)] over the feasible values of a boolean operand"""
        if isinstance(cond, Choice):
            j = ctx.ip.join_choice(cond)
            cond = j if j is not None else IntVal.top(BOOL)
        if isinstance(cond, IntVal) and cond.is_const():
            return [(ctx.st, bool(cond.lo))]
        outs = []
        for want in (1, 0):
            s2 = ctx.st.copy()
            if not isinstance(cond, IntVal) or ctx.ip.assume_bool(s2, cond, want):
                outs.append((s2, bool(want)))
        return outs

    @S.on("core::bool::<impl bool>::then", "core::bool::<impl bool>::then_some")
    def bool_then(ctx):
        dest, target = ctx.dest, ctx.target
        lazy = ctx.path.endswith("::then")
        outs = []
        for s2, truth in fork_bool(ctx, ctx.args[0]):
            if not truth:
                ctx.ip.finish_call(s2, dest, target, NONE)
            elif not lazy:
                ctx.ip.finish_call(s2, dest, target, some(ctx.args[1]))
            elif not ctx.call_closure_on(s2, ctx.args[1], [], lambda ip, st, rv: ip.finish_call(st, dest, target, some(rv))):
                return NotImplemented
            outs.append(s2)
        return outs

    @S.on("core::option::Option::<T>::zip")
    def option_zip(ctx):
        for i in (0, 1):
            r = split_enum_top(ctx, i, OPTION, OPT_VARS)
            if r is not None:
                return r
        a, b = ctx.args[0], ctx.args[1]
        if a.variant == 0 or b.variant == 0:
            return ctx.ret(NONE)
        return ctx.ret(some(TupleVal([a.fields[0], b.fields[0]])))

    @S.on("core::option::Option::<T>::xor", "core::option::Option::<T>::or", "core::option::Option::<T>::and")
    def option_xor_or_and(ctx):
        for i in (0, 1):
            r = split_enum_top(ctx, i, OPTION, OPT_VARS)
            if r is not None:
                return r
        a, b = ctx.args[0], ctx.args[1]
        op = ctx.path.rsplit("::", 1)[1]
        if op == "or":
            return ctx.ret(a if a.variant == 1 else b)
        if op == "and":
            return ctx.ret(b if a.variant == 1 else NONE)
        if a.variant == 1 and b.variant == 0:
            return ctx.ret(a)
        if a.variant == 0 and b.variant == 1:
            return ctx.ret(b)
        return ctx.ret(NONE)

    @S.on("core::option::Option::<T>::or_else")
    def option_or_else(ctx):
        r = split_enum_top(ctx, 0, OPTION, OPT_VARS)
        if r is not None:
            return r
        a = ctx.args[0]
        if a.variant == 1:
            return ctx.ret(a)
        dest, target = ctx.dest, ctx.target
        if ctx.call_closure(ctx.args[1], [], lambda ip, st, rv: ip.finish_call(st, dest, target, rv)):
            return None
        return ctx.ret(ctx.top_ret())

    @S.on("core::option::Option::<T>::ok_or_else")
    def option_ok_or_else(ctx):
        r = split_enum_top(ctx, 0, OPTION, OPT_VARS)
        if r is not None:
            return r
        a = ctx.args[0]
        if a.variant == 1:
            return ctx.ret(ok(a.fields[0]))
        dest, target = ctx.dest, ctx.target
        if ctx.call_closure(ctx.args[1], [], lambda ip, st, rv: ip.finish_call(st, dest, target, err(rv))):
            return None
        return ctx.ret(ctx.top_ret())

    @S.on("core::option::Option::<T>::is_some_and", "core::option::Option::<T>::is_none_or",
          "core::result::Result::<T, E>::is_ok_and", "core::result::Result::<T, E>::is_err_and")
    def option_is_some_and(ctx):
        isopt = "option::Option" in ctx.path
        r = split_enum_top(ctx, 0, OPTION if isopt else RESULT, OPT_VARS if isopt else RES_VARS)
        if r is not None:
            return r
        a = ctx.args[0]
        op = ctx.path.rsplit("::", 1)[1]
        hit = {"is_some_and": 1, "is_none_or": 1, "is_ok_and": 0, "is_err_and": 1}[op]
        if a.variant != hit:
            return ctx.ret(IntVal.const(BOOL, 1 if op == "is_none_or" else 0))
        dest, target = ctx.dest, ctx.target
        if ctx.call_closure(ctx.args[1], [a.fields[0]], lambda ip, st, rv: ip.finish_call(st, dest, target, rv)):
            return None
        return ctx.ret(ctx.top_ret())

    @S.on("core::result::Result::<T, E>::and_then", "core::result::Result::<T, E>::or_else")
    def result_and_then(ctx):
        r = split_enum_top(ctx, 0, RESULT, RES_VARS)
        if r is not None:
            return r
        a = ctx.args[0]
        good = 0 if ctx.path.endswith("and_then") else 1
        if a.variant != good:
            return ctx.ret(a)
        dest, target = ctx.dest, ctx.target
        if ctx.call_closure(ctx.args[1], [a.fields[0]], lambda ip, st, rv: ip.finish_call(st, dest, target, rv)):
            return None
        return ctx.ret(ctx.top_ret())

    @S.on("core::option::Option::<T>::filter")
    def option_filter(ctx):
        r = split_enum_top(ctx, 0, OPTION, OPT_VARS)
        if r is not None:
            return r
        a = ctx.args[0]
        if a.variant == 0:
            return ctx.ret(NONE)
        dest, target = ctx.dest, ctx.target
        x = a.fields[0]
        xref = RefVal(ctx.st.new_heap(x), False)

        def done(ip, st, rv):
            if isinstance(rv, IntVal) and rv.is_const():
                return ip.finish_call(st, dest, target, some(x) if rv.lo else NONE)
            if isinstance(rv, IntVal):
                outs = []
                for want, val in ((1, some(x)), (0, NONE)):
                    s2 = st.copy()
                    if ip.assume_bool(s2, rv, want):
                        if want:
                            val = some(ip.read_loc(s2, xref.loc))
                        ip.finish_call(s2, dest, target, val)
                        outs.append(s2)
                return outs
            s2 = st.copy()
            ip.finish_call(st, dest, target, some(x))
            ip.finish_call(s2, dest, target, NONE)
            return [st, s2]
        if ctx.call_closure(ctx.args[1], [xref], done):
            return None
        return ctx.ret(ctx.top_ret())

    @S.on("core::result::Result::<T, E>::map_or", "core::result::Result::<T, E>::map_or_else")
    def result_map_or(ctx):
        r = split_enum_top(ctx, 0, RESULT, RES_VARS)
        if r is not None:
            return r
        a = ctx.args[0]
        dest, target = ctx.dest, ctx.target

        def done(ip, st, rv):
            return ip.finish_call(st, dest, target, rv)
        if a.variant == 0:
            if ctx.call_closure(ctx.args[2], [a.fields[0]], done):
                return None
        elif ctx.path.endswith("map_or"):
            return ctx.ret(ctx.args[1])
        elif ctx.call_closure(ctx.args[1], [a.fields[0]], done):
            return None
        return ctx.ret(ctx.top_ret())

    @S.on("core::option::Option::<T>::map_or_else")
    def option_map_or_else(ctx):
        r = split_enum_top(ctx, 0, OPTION, OPT_VARS)
        if r is not None:
            return r
        a = ctx.args[0]
        dest, target = ctx.dest, ctx.target

        def done(ip, st, rv):
            return ip.finish_call(st, dest, target, rv)
        if a.variant == 0:
            if ctx.call_closure(ctx.args[1], [], done):
                return None
        else:
            if ctx.call_closure(ctx.args[2], [a.fields[0]], done):
                return None
        return ctx.ret(ctx.top_ret())

    @S.on("core::option::Option::<T>::map_or")
    def option_map_or(ctx):
        r = split_enum_top(ctx, 0, OPTION, OPT_VARS)
        if r is not None:
            return r
        a = ctx.args[0]
        dest, target = ctx.dest, ctx.target
        if a.variant == 0:
            return ctx.ret(ctx.args[1])

        def done(ip, st, rv):
            return ip.finish_call(st, dest, target, rv)
        if ctx.call_closure(ctx.args[2], [a.fields[0]], done):
            return None
        return ctx.ret(ctx.top_ret())

    @S.on("core::option::Option::<T>::unwrap_or", "core::result::Result::<T, E>::unwrap_or")
    def unwrap_or(ctx):
        r = split_enum_top(ctx, 0, OPTION if "option" in ctx.path else RESULT, OPT_VARS if "option" in ctx.path else RES_VARS)
        if r is not None:
            return r
        a = ctx.args[0]
        good = 1 if a.path == OPTION else 0
        return ctx.ret(a.fields[0] if a.variant == good else ctx.args[1])

    @S.on("core::option::Option::<T>::unwrap", "core::option::Option::<T>::expect",
          "core::result::Result::<T, E>::unwrap", "core::result::Result::<T, E>::expect")
    def unwrap(ctx):
        isopt = "option::Option" in ctx.path
        r = split_enum_top(ctx, 0, OPTION if isopt else RESULT, OPT_VARS if isopt else RES_VARS)
        key = ctx.ip.site_key(ctx.fr.fn, ctx.call.get("span"), "call:" + ctx.path.split("::")[-1])
        if r is not None:
            # unknown value: the panic outcome is possible
            ctx.ip.obligation(ctx.st, ctx.fr, key, False, {"kind": "unwrap", "value": repr(ctx.args[0])})
            # continue only on the good variant
            good = 1 if isopt else 0
            return [r[good] if isopt else r[0]]
        a = ctx.args[0]
        good = 1 if isopt else 0
        if a.variant == good:
            ctx.ip.obligation(ctx.st, ctx.fr, key, True, None)
            return ctx.ret(a.fields[0])
        ctx.ip.obligation(ctx.st, ctx.fr, key, False, {"kind": "unwrap", "value": repr(a)})
        ctx.st.status = "panicked"
        return None

    @S.on("core::option::Option::<T>::is_some", "core::option::Option::<T>::is_none",
          "core::result::Result::<T, E>::is_ok", "core::result::Result::<T, E>::is_err")
    def is_x(ctx):
        a = ctx.deref(ctx.arg_split(0))
        if isinstance(a, AdtVal) and a.variant is not None:
            name = ctx.path.split("::")[-1]
            v = {"is_some": a.variant == 1, "is_none": a.variant == 0, "is_ok": a.variant == 0, "is_err": a.variant == 1}[name]
            return ctx.ret(IntVal.const(BOOL, 1 if v else 0))
        return ctx.ret(IntVal.top(BOOL, deps=deps_of(a)))

    @S.on("core::result::Result::<T, E>::ok")
    def result_ok(ctx):
        r = split_enum_top(ctx, 0, RESULT, RES_VARS)
        if r is not None:
            return r
        a = ctx.args[0]
        return ctx.ret(some(a.fields[0]) if a.variant == 0 else NONE)

    @S.on("core::result::Result::<T, E>::map")
    def result_map(ctx):
        r = split_enum_top(ctx, 0, RESULT, RES_VARS)
        if r is not None:
            return r
        a = ctx.args[0]
        if a.variant == 1:
            return ctx.ret(a)
        dest, target = ctx.dest, ctx.target

        def done(ip, st, rv):
            return ip.finish_call(st, dest, target, ok(rv))
        if ctx.call_closure(ctx.args[1], [a.fields[0]], done):
            return None
        return ctx.ret(ok(ctx.top_ret()))

    @S.on("core::result::Result::<T, E>::map_err")
    def result_map_err(ctx):
        r = split_enum_top(ctx, 0, RESULT, RES_VARS)
        if r is not None:
            return r
        a = ctx.args[0]
        if a.variant == 0:
            return ctx.ret(a)
        dest, target = ctx.dest, ctx.target

        def done(ip, st, rv):
            return ip.finish_call(st, dest, target, err(rv))
        if ctx.call_closure(ctx.args[1], [a.fields[0]], done):
            return None
        return ctx.ret(err(ctx.top_ret()))

    @S.on("core::option::Option::<T>::as_ref", "core::option::Option::<T>::as_mut")
    def option_as_ref(ctx):
        a = ctx.args[0]
        v = ctx.deref(a)
        if isinstance(v, AdtVal) and v.variant is not None and isinstance(a, RefVal):
            if v.variant == 0:
                return ctx.ret(NONE)
            loc = a.loc[:-1] + (a.loc[-1] + (("d", 1), ("f", 0, None)),)
            return ctx.ret(some(RefVal(loc, a.mut)))
        return ctx.ret(ctx.top_ret())

    # ---------------------------------------------------------------- integer helpers
    @S.pat(r"^core::num::<impl u(8|16|32|64|size)>::saturating_(sub|add|mul)$")
    def saturating_op(ctx):
        a, b = ctx.args
        if not isinstance(a, IntVal) or not isinstance(b, IntVal):
            return ctx.ret(ctx.top_ret())
        ip, st = ctx.ip, ctx.st
        a, b = ip.reduce_int(st, a), ip.reduce_int(st, b)
        op = {"sub": "Sub", "mul": "Mul", "add": "Add"}[ctx.path.rsplit("_", 1)[1]]
        r = ip.arith(st, op, a, b, wrap=False)
        ty = a.ty
        bound = ty.min() if op == "Sub" else ty.max()
        if ty.min() <= r.lo and r.hi <= ty.max():
            return ctx.ret(r)
        if r.hi < ty.min() or r.lo > ty.max():
            return ctx.ret(IntVal.const(ty, bound))
        # both outcomes: exact result where it fits, the bound where it saturates
        s_ok, s_sat = st.copy(), st.copy()
        okv = r.with_(lo=max(r.lo, ty.min()), hi=min(r.hi, ty.max()))
        if okv.vals is not None:
            okv.vals = frozenset(x for x in okv.vals if okv.lo <= x <= okv.hi)
        okv = okv.fresh()
        if op == "Sub" and b.is_const():
            ip.assume_cmp(s_ok, "Ge", ip.current(s_ok, a), b)
            ip.assume_cmp(s_sat, "Lt", ip.current(s_sat, a), b)
        else:
            g = {"op": "saturating_" + op, "a": repr(a), "b": repr(b), "deps": a.deps | b.deps}
            s_ok.pc.add_guard(dict(g, outcome="exact"))
            s_sat.pc.add_guard(dict(g, outcome="saturated"))
        return ctx.ret_states([(s_ok, okv), (s_sat, IntVal.const(ty, bound))])

    @S.pat(r"^core::num::<impl u(8|16|32|64|size)>::checked_(sub|mul|add)$")
    def checked_op(ctx):
        a, b = ctx.args
        if not isinstance(a, IntVal) or not isinstance(b, IntVal):
            return ctx.ret(ctx.top_ret())
        ip, st = ctx.ip, ctx.st
        a, b = ip.reduce_int(st, a), ip.reduce_int(st, b)
        op = {"sub": "Sub", "mul": "Mul", "add": "Add"}[ctx.path.rsplit("_", 1)[1]]
        r = ip.arith(st, op, a, b, wrap=False)
        ty = a.ty
        if ty.min() <= r.lo and r.hi <= ty.max():
            return ctx.ret(some(r))
        if r.hi < ty.min() or r.lo > ty.max():
            return ctx.ret(NONE)
        # both outcomes: fork with refinement of the operands where possible
        outs = []
        s_ok = st.copy()
        s_no = st.copy()
        okv = r.with_(lo=max(r.lo, ty.min()), hi=min(r.hi, ty.max()))
        if okv.vals is not None:
            okv.vals = frozenset(x for x in okv.vals if okv.lo <= x <= okv.hi)
        okv = okv.fresh()
        if op == "Sub" and b.is_const():
            ip.assume_cmp(s_ok, "Ge", ip.current(s_ok, a), b)
            ip.assume_cmp(s_no, "Lt", ip.current(s_no, a), b)
        else:
            g = {"op": "checked_" + op, "a": repr(a), "b": repr(b), "deps": a.deps | b.deps}
            s_ok.pc.add_guard(dict(g, outcome="some"))
            s_no.pc.add_guard(dict(g, outcome="none"))
        return ctx.ret_states([(s_ok, some(okv)), (s_no, NONE)])

    @S.pat(r"^core::convert::num::(ptr_try_from_impls::)?<impl core::convert::TryFrom<\w+> for \w+>::try_from$")
    def int_try_from(ctx):
        a = ctx.args[0]
        rty = ctx.ret_ty()
        tty = ty_of_json(rty["args"][0]) if rty and rty.get("args") else None
        if not isinstance(a, IntVal) or tty is None:
            return ctx.ret(ctx.top_ret())
        a = ctx.ip.reduce_int(ctx.st, a)
        if tty.min() <= a.lo and a.hi <= tty.max():
            return ctx.ret(ok(ctx.ip.cast(ctx.st, "IntToInt", a, rty["args"][0])))
        if a.hi < tty.min() or a.lo > tty.max():
            return ctx.ret(err(Top(None)))
        s_ok, s_no = ctx.st.copy(), ctx.st.copy()
        lo, hi = max(a.lo, tty.min()), min(a.hi, tty.max())
        v = IntVal(tty, lo, hi, None, None, a.lin, a.deps, tags=a.tags)
        g = {"op": "try_from", "a": repr(a), "lin": a.lin, "to": repr(tty), "deps": a.deps}
        s_ok.pc.add_guard(dict(g, outcome="ok"))
        s_no.pc.add_guard(dict(g, outcome="err"))
        return ctx.ret_states([(s_ok, ok(v)), (s_no, err(Top(None, a.deps)))])

    @S.pat(r"^core::convert::num::<impl core::convert::From<\w+> for \w+>::from$")
    def int_from(ctx):
        a = ctx.args[0]
        rty = ctx.ret_ty()
        if isinstance(a, IntVal) and rty is not None:
            if rty.get("k") == "float":
                return ctx.ret(ctx.ip.cast(ctx.st, "IntToFloat", a, rty))
            return ctx.ret(ctx.ip.cast(ctx.st, "IntToInt", a, rty))
        if isinstance(a, FloatVal) and rty is not None and rty.get("k") == "float":
            return ctx.ret(ctx.ip.cast(ctx.st, "FloatToFloat", a, rty))
        return ctx.ret(ctx.top_ret())

    @S.pat(r"^core::str::<impl str>::(trim|trim_start|trim_end|trim_ascii|trim_ascii_start|trim_ascii_end)$")
    def str_trim_ws(ctx):
        # removing surrounding white space: for the purposes of the rules the same text (hex digits contain none)
        return ctx.ret(ctx.args[0])

    @S.pat(r"^core::num::<impl (u|i)\w+>::from_str_radix$")
    def from_str_radix(ctx):
        radix = ctx.args[1]
        rty = ctx.ret_ty()
        t = ty_of_json(rty["args"][0]) if rty and rty.get("args") else None
        tag = frozenset([("parsed_radix", radix.cval() if isinstance(radix, IntVal) else None)])
        # which string is parsed: the marker of an input string handed in by a rule survives only if the very same string
        # (not something derived from it by trimming / slicing / replacing) reaches the parser
        sv = ctx.args[0]
        hops = 0
        while isinstance(sv, RefVal) and hops < 3:
            sv = ctx.ip.read_loc(ctx.st, sv.loc)
            hops += 1
        if isinstance(sv, Opaque) and sv.kind == "str_unknown" and sv.get("origin"):
            tag = tag | frozenset([("parsed_input", sv.get("origin"))])
        s_ok, s_err = ctx.st, ctx.st.copy()
        v = IntVal.top(t, tags=tag) if t is not None else Top(None, tags=tag)
        return ctx.ret_states([(s_ok, ok(v)), (s_err, err(Top(None)))])

    @S.pat(r"^core::num::<impl u32>::to_be_bytes$")
    def to_be_bytes(ctx):
        a = ctx.args[0]
        if isinstance(a, IntVal) and a.bits is not None:
            out = []
            for k in range(3, -1, -1):
                out.append(IntVal.from_bits(U8, a.bits[8 * k: 8 * k + 8]) if all(e is not None for e in a.bits[8 * k: 8 * k + 8]) else IntVal.top(U8, deps=a.deps))
            return ctx.ret(ArrayVal(out, 4))
        d = deps_of(a)
        return ctx.ret(ArrayVal([IntVal.top(U8, deps=d, tags=frozenset([("be_byte", k)]) | getattr(a, "tags", frozenset())) for k in range(4)], 4))

    @S.pat(r"^core::num::<impl u(16|32|64)>::from_(be|le)_bytes$")
    def from_xe_bytes(ctx):
        arr = ctx.args[0]
        rty = ctx.ret_ty()
        t = ty_of_json(rty) if rty else None
        big = ctx.path.endswith("from_be_bytes")
        if t is None or not isinstance(arr, ArrayVal) or arr.elems is None or len(arr.elems) * 8 != t.bits:
            return ctx.ret(ctx.top_ret())
        elems = list(arr.elems)
        if big:
            elems = elems[::-1]             # least significant byte first
        bits = []
        tags = frozenset()
        for x in elems:
            if not isinstance(x, IntVal):
                return ctx.ret(ctx.top_ret())
            x = ctx.ip.reduce_int(ctx.st, x)
            if x.bits is None or any(e is None for e in x.bits[:8]):
                return ctx.ret(ctx.top_ret())
            bits.extend(x.bits[:8])
            tags |= x.tags
        r = IntVal.from_bits(t, tuple(bits))
        r.tags = r.tags | tags
        return ctx.ret(r)

    @S.on("core::cmp::max", "core::cmp::Ord::max", "core::cmp::min", "core::cmp::Ord::min")
    def cmp_max(ctx):
        a, b = ctx.args[0], ctx.args[1]
        ismax = ctx.path.endswith("max")
        if isinstance(a, IntVal) and isinstance(b, IntVal):
            if ismax:
                lo, hi = max(a.lo, b.lo), max(a.hi, b.hi)
            else:
                lo, hi = min(a.lo, b.lo), min(a.hi, b.hi)
            from .interp import _name_of
            na, nb = _name_of(a), _name_of(b)
            tags = frozenset([("max" if ismax else "min", repr(a), repr(b))])
            if na is not None or nb is not None:
                tags |= frozenset([("name", "%s(%s,%s)" % ("max" if ismax else "min", na if na is not None else a.cval(), nb if nb is not None else b.cval()))])
            return ctx.ret(IntVal(a.ty, lo, hi, None, None, None, a.deps | b.deps, tags=tags))
        return ctx.ret(ctx.top_ret())

    @S.pat(r"^core::clone::impls::<impl core::clone::Clone for \w+>::clone$",
           )
    def prim_clone(ctx):
        return ctx.ret(ctx.deref(ctx.args[0]))

    @S.pat(r"^core::array::<impl core::clone::Clone for \[T; N\]>::clone$")
    def arr_clone(ctx):
        return ctx.ret(ctx.deref(ctx.args[0]))

    @S.on("<core::option::Option<T> as core::clone::Clone>::clone", "<alloc::vec::Vec<T, A> as core::clone::Clone>::clone",
          "<alloc::string::String as core::clone::Clone>::clone")
    def generic_clone(ctx):
        a = ctx.args[0]
        if isinstance(a, RefVal):
            v = ctx.ip.read_loc(ctx.st, a.loc)
            return ctx.ret(v)
        return ctx.ret(a)

    @S.pat(r"^core::cmp::impls::<impl core::cmp::PartialEq for (u|i)\w+>::(eq|ne)$")
    def prim_eq(ctx):
        a, b = ctx.deref(ctx.args[0]), ctx.deref(ctx.args[1])
        op = "Eq" if ctx.path.endswith("eq") else "Ne"
        return ctx.ret(ctx.ip.binop(ctx.st, op, a, b))

    @S.pat(r"^core::cmp::impls::<impl core::cmp::PartialOrd for (u|i|f)\w+>::(lt|le|gt|ge)$")
    def prim_ord(ctx):
        a, b = ctx.deref(ctx.args[0]), ctx.deref(ctx.args[1])
        op = {"lt": "Lt", "le": "Le", "gt": "Gt", "ge": "Ge"}[ctx.path.rsplit("::", 1)[1]]
        return ctx.ret(ctx.ip.binop(ctx.st, op, a, b))

    @S.pat(r"^core::default::Default::default$|<impl core::default::Default for (u|i)\w+>::default$")
    def prim_default(ctx):
        rty = ctx.ret_ty()
        t = ty_of_json(rty) if rty else None
        if t is not None:
            return ctx.ret(IntVal.const(t, 0))
        if rty and rty.get("k") == "adt" and rty["path"] == OPTION:
            return ctx.ret(NONE)
        if rty and rty.get("k") == "float":
            return ctx.ret(FloatVal(rty["bits"], const=0.0, term=("const", "0.0")))
        return NotImplemented

    @S.pat(r"^core::array::<impl core::default::Default for \[T; .*\]>::default$")
    def array_default(ctx):
        rty = ctx.ret_ty()
        if rty and rty.get("k") == "array" and rty.get("len") is not None:
            et = rty["elem"]
            if et.get("k") == "adt" and et["path"] == OPTION:
                return ctx.ret(ArrayVal([NONE] * rty["len"], rty["len"], et))
            t = ty_of_json(et)
            if t is not None:
                return ctx.ret(ArrayVal([IntVal.const(t, 0)] * rty["len"], rty["len"], et))
        return ctx.ret(ctx.top_ret())

    @S.on("<core::option::Option<T> as core::default::Default>::default")
    def option_default(ctx):
        return ctx.ret(NONE)

    @S.on("<T as core::borrow::Borrow<T>>::borrow", "<T as core::borrow::BorrowMut<T>>::borrow_mut", "<T as core::convert::AsRef<T>>::as_ref")
    def borrow_identity(ctx):
        return ctx.ret(ctx.args[0])

    @S.on("core::hint::must_use", "core::convert::identity", "<T as core::convert::From<T>>::from", "<T as core::convert::Into<U>>::into",
          "core::mem::drop", "core::hint::black_box")
    def identity(ctx):
        if ctx.path == "core::mem::drop":
            return ctx.ret(UNIT)
        if ctx.path == "<T as core::convert::Into<U>>::into":
            return NotImplemented if False else ctx.ret(_into(ctx))
        return ctx.ret(ctx.args[0])

    def _into(ctx):
        a = ctx.args[0]
        rty = ctx.ret_ty()
        if isinstance(a, IntVal) and rty is not None and ty_of_json(rty) is not None:
            return ctx.ip.cast(ctx.st, "IntToInt", a, rty)
        if isinstance(a, IntVal) and rty is not None and rty.get("k") == "float":
            return ctx.ip.cast(ctx.st, "IntToFloat", a, rty)
        return a if rty is None else (a if not isinstance(a, (IntVal,)) else ctx.top_ret())

    # ---------------------------------------------------------------- ranges / iteration
    @S.on("<I as core::iter::traits::collect::IntoIterator>::into_iter")
    def into_iter_identity(ctx):
        return ctx.ret(ctx.args[0])

    @S.on("core::ops::range::RangeInclusive::<Idx>::new")
    def range_incl_new(ctx):
        return ctx.ret(Opaque.make("range_incl", cur=ctx.args[0], end=ctx.args[1], done=False))

    def _range_of(ctx, v):
        """normalise Range{start,end} AdtVal / range_incl opaque"""
        if isinstance(v, AdtVal) and v.path == "core::ops::range::Range":
            return ("excl", v.fields[0], v.fields[1], False)
        if isinstance(v, Opaque) and v.kind == "range_incl":
            return ("incl", v.get("cur"), v.get("end"), v.get("done"))
        return None

    def range_pull(ip, st, v):
        """advance a Range / RangeInclusive value: [(state, new range value, element | END)]"""
        from .sum_iter import END
        r = _range_of(None, v)
        if r is None:
            raise Inconclusive("range iteration over %r" % (v,))
        kind, cur, end, done = r
        if not (isinstance(cur, IntVal) and isinstance(end, IntVal) and cur.is_const() and end.is_const()):
            # symbolic bounds: abstract iteration (one arbitrary element in [cur.lo, end.hi), then exhaustion is also possible)
            if isinstance(cur, IntVal) and isinstance(end, IntVal):
                hi = end.hi - (1 if kind == "excl" else 0)
                s_none = st.copy()
                elem = IntVal(cur.ty, cur.lo, max(cur.lo, hi), None, None, None, cur.deps | end.deps)
                return [(st, v, elem), (s_none, v, END)]
            raise Inconclusive("range iteration over %r" % (v,))
        c, e = cur.cval(), end.cval()
        if kind == "excl":
            if c < e:
                return [(st, AdtVal(v.path, v.variant, [IntVal.const(cur.ty, c + 1), end], v.kind, v.vname), cur)]
            return [(st, v, END)]
        if done or c > e:
            return [(st, v, END)]
        if c == e:
            return [(st, v.set(done=True), cur)]
        return [(st, v.set(cur=IntVal.const(cur.ty, c + 1)), cur)]

    S.range_pull = range_pull

    @S.pat(r"^core::iter::range::<impl core::iter::traits::iterator::Iterator for core::ops::range::Range(Inclusive)?<\w+>>::next$")
    def range_next(ctx):
        from .sum_iter import END
        ref = ctx.args[0]
        v = ctx.deref(ref)
        if _range_of(ctx, v) is None:
            return ctx.ret(ctx.top_ret())
        try:
            res = range_pull(ctx.ip, ctx.st, v)
        except Inconclusive:
            return ctx.ret(ctx.top_ret())
        outs = []
        for s, v2, e in res:
            if v2 is not v:
                ctx.ip.write_loc(s, ref.loc, v2)
            ctx.ip.finish_call(s, ctx.dest, ctx.target, NONE if e is END else some(e))
            outs.append(s)
        return outs if len(outs) != 1 or outs[0] is not ctx.st else None

    # ---------------------------------------------------------------- slices / arrays / vec / string
    def seq_of(ctx, a):
        v = ctx.deref(a)
        if isinstance(v, RefVal):
            v = ctx.deref(v)
        return v

    @S.on("core::slice::<impl [T]>::len", "alloc::vec::Vec::<T, A>::len", "alloc::string::String::len", "core::str::<impl str>::len")
    def seq_len(ctx):
        a = ctx.args[0]
        if isinstance(a, RefVal) and a.meta is not None:
            return ctx.ret(a.meta)
        v = seq_of(ctx, a)
        return ctx.ret(ctx.ip.len_of(ctx.st, v))

    @S.on("core::slice::<impl [T]>::is_empty", "alloc::vec::Vec::<T, A>::is_empty", "alloc::string::String::is_empty", "core::str::<impl str>::is_empty")
    def seq_is_empty(ctx):
        a = ctx.args[0]
        n = a.meta if isinstance(a, RefVal) and a.meta is not None else ctx.ip.len_of(ctx.st, seq_of(ctx, a))
        return ctx.ret(ctx.ip.binop(ctx.st, "Eq", n, IntVal.const(USIZE, 0)))

    @S.on("alloc::vec::Vec::<T>::new", "alloc::string::String::new")
    def vec_new(ctx):
        kind = "string" if "String" in ctx.path else "vec"
        return ctx.ret(Opaque.make(kind, elems=(), n=0, summary=None))

    @S.on("alloc::vec::Vec::<T>::with_capacity", "alloc::string::String::with_capacity")
    def vec_with_capacity(ctx):
        ctx.ip.event(ctx.st, "alloc", size=ctx.args[0], fn=ctx.fr.fn["path"], callee=ctx.path, span=ctx.call.get("span"))
        kind = "string" if "String" in ctx.path else "vec"
        return ctx.ret(Opaque.make(kind, elems=(), n=0, summary=None))

    @S.on("alloc::vec::from_elem")
    def vec_from_elem(ctx):
        e, n = ctx.args[0], ctx.args[1]
        ctx.ip.event(ctx.st, "alloc", size=n, fn=ctx.fr.fn["path"], callee=ctx.path, span=ctx.call.get("span"))
        if isinstance(n, IntVal) and n.is_const() and n.cval() <= 4096:
            return ctx.ret(Opaque.make("vec", elems=tuple([e] * n.cval()), n=n.cval(), summary=None))
        return ctx.ret(Opaque.make("vec", elems=None, n=n, summary=e))

    @S.on("alloc::boxed::Box::<T>::new_uninit", "alloc::boxed::Box::<T>::new")
    def box_new(ctx):
        loc = ctx.st.new_heap(ctx.args[0] if ctx.args else None)
        return ctx.ret(Opaque.make("box", loc=loc))

    @S.on("alloc::boxed::box_assume_init_into_vec_unsafe", "alloc::slice::<impl [T]>::into_vec")
    def box_into_vec(ctx):
        b = ctx.args[0]
        if isinstance(b, Opaque) and b.kind == "box":
            v = ctx.ip.read_loc(ctx.st, b.get("loc"))

            def dig(x, depth=0):
                if isinstance(x, ArrayVal):
                    return x
                if isinstance(x, (TupleVal, AdtVal)) and depth < 6:
                    for f in x.fields:
                        r = dig(f, depth + 1)
                        if r is not None:
                            return r
                return None
            arr = dig(v)
            if arr is not None and arr.elems is not None:
                ctx.ip.event(ctx.st, "alloc", size=IntVal.const(USIZE, len(arr.elems)), fn=ctx.fr.fn["path"], callee="vec![..]", span=ctx.call.get("span"))
                return ctx.ret(Opaque.make("vec", elems=tuple(arr.elems), n=len(arr.elems), summary=None))
        return ctx.ret(Opaque.make("vec", elems=None, n=IntVal(USIZE, 0, 1 << 40), summary=None))

    @S.on("core::cmp::PartialEq::ne")
    def default_ne(ctx):
        a, b = ctx.args
        va = ctx.deref(a)
        dest, target = ctx.dest, ctx.target
        if isinstance(va, AdtVal):
            fn = None
            for f in ctx.ip.prog.fns.values():
                im = f.get("impl")
                if f.get("name") == "eq" and im and im.get("trait_def") == "core::cmp::PartialEq" and im["self_ty"].get("k") == "adt" and im["self_ty"]["path"] == va.path:
                    fn = f
                    break
            if fn is not None:
                def done(ip, st, rv):
                    return ip.finish_call(st, dest, target, ip.unop(st, "Not", rv) if isinstance(rv, IntVal) else IntVal.top(BOOL))
                ctx.ip.call_fn(ctx.st, fn, [a, b], on_return=done)
                return None
        return ctx.ret(IntVal.top(BOOL, deps=deps_of(va)))

    @S.pat(r"^core::cmp::impls::<impl core::cmp::PartialEq<&B> for &A>::(eq|ne)$")
    def ref_eq(ctx):
        a, b = ctx.deref(ctx.args[0]), ctx.deref(ctx.args[1])
        neg = ctx.path.endswith("ne")
        va, vb = ctx.deref(a), ctx.deref(b)
        dest, target = ctx.dest, ctx.target
        if isinstance(va, IntVal) and isinstance(vb, IntVal):
            return ctx.ret(ctx.ip.binop(ctx.st, "Ne" if neg else "Eq", va, vb))
        if isinstance(va, AdtVal) and isinstance(a, RefVal) and isinstance(b, RefVal):
            for f in ctx.ip.prog.fns.values():
                im = f.get("impl")
                if f.get("name") == "eq" and im and im.get("trait_def") == "core::cmp::PartialEq" and im["self_ty"].get("k") == "adt" and im["self_ty"]["path"] == va.path:
                    def done(ip, st, rv):
                        if neg and isinstance(rv, IntVal):
                            rv = ip.unop(st, "Not", rv)
                        return ip.finish_call(st, dest, target, rv)
                    ctx.ip.call_fn(ctx.st, f, [a, b], on_return=done)
                    return None
        return ctx.ret(IntVal.top(BOOL, deps=deps_of(va) | deps_of(vb)))

    @S.pat(r"^<core::option::Option<T> as core::cmp::PartialEq>::(eq|ne)$|^core::array::equality::<impl core::cmp::PartialEq<\[U; N\]> for \[T; N\]>::(eq|ne)$|^<std::time::SystemTime as core::cmp::PartialEq>::(eq|ne)$|^<f(32|64) as core::cmp::PartialEq>::(eq|ne)$|^<alloc::string::String as core::cmp::PartialEq>::(eq|ne)$|^<alloc::vec::Vec<T, A1> as core::cmp::PartialEq<alloc::vec::Vec<U, A2>>>::(eq|ne)$")
    def opaque_eq(ctx):
        a, b = ctx.deref(ctx.args[0]), ctx.deref(ctx.args[1])
        neg = ctx.path.endswith("ne")
        if isinstance(a, AdtVal) and isinstance(b, AdtVal) and a.path == OPTION and b.path == OPTION:
            # structural comparison of two known-shape options
            if a.variant != b.variant:
                return ctx.ret(IntVal.const(BOOL, 1 if neg else 0))
            if a.variant == 0:
                return ctx.ret(IntVal.const(BOOL, 0 if neg else 1))
            x, y = a.fields[0], b.fields[0]
            for _ in range(3):
                if isinstance(x, RefVal):
                    x = ctx.deref(x)
                if isinstance(y, RefVal):
                    y = ctx.deref(y)
            if isinstance(x, IntVal) and isinstance(y, IntVal):
                return ctx.ret(ctx.ip.binop(ctx.st, "Ne" if neg else "Eq", x, y))
        tags = frozenset()
        for x in (a, b):
            tags |= _all_tags(x)
        if fp(a) == fp(b) and not tags and _is_exact(a):
            return ctx.ret(IntVal.const(BOOL, 0 if ctx.path.endswith("ne") else 1))
        r = IntVal.top(BOOL, deps=deps_of(a) | deps_of(b), tags=tags | frozenset([("eq_of", ctx.path.split(" as ")[0].lstrip("<"))]))
        return ctx.ret(r)

    def _all_tags(x):
        t = getattr(x, "tags", frozenset()) or frozenset()
        if isinstance(x, (AdtVal, TupleVal)):
            for f in x.fields:
                t |= _all_tags(f)
        elif isinstance(x, ArrayVal) and x.elems:
            for f in x.elems:
                t |= _all_tags(f)
        elif isinstance(x, Choice):
            for _d, v in x.alts:
                t |= _all_tags(v)
        return t

    def _is_exact(x):
        if isinstance(x, IntVal):
            return x.is_const()
        if isinstance(x, (AdtVal, TupleVal)):
            return all(_is_exact(f) for f in x.fields)
        if isinstance(x, ArrayVal):
            return x.elems is not None and all(_is_exact(f) for f in x.elems)
        return False

    S.all_tags = _all_tags

    @S.on("alloc::vec::Vec::<T, A>::push")
    def vec_push(ctx):
        ref, x = ctx.args
        v = ctx.deref(ref)
        if isinstance(v, Opaque) and v.kind == "vec":
            if v.get("elems") is not None:
                es = v.get("elems") + (x,)
                nv = v.set(elems=es, n=len(es))
            else:
                nv = v.set(summary=join_val(v.get("summary"), x), n=_inc(v.get("n")))
            ctx.ip.write_loc(ctx.st, ref.loc, nv)
            return ctx.ret(UNIT)
        if isinstance(ref, RefVal):
            ctx.ip.write_loc(ctx.st, ref.loc, Opaque.make("vec", elems=None, n=IntVal(USIZE, 1, (1 << 63) - 1), summary=join_val(None, x)))
        return ctx.ret(UNIT)

    def _inc(n):
        if isinstance(n, int):
            return n + 1
        if isinstance(n, IntVal):
            return IntVal(USIZE, n.lo + 1, min(n.hi + 1, (1 << 63) - 1))
        return IntVal(USIZE, 1, (1 << 63) - 1)

    @S.on("alloc::vec::Vec::<T, A>::extend_from_slice")
    def vec_extend_from_slice(ctx):
        ref, sl = ctx.args
        v = ctx.deref(ref)
        src = slice_elems(ctx, sl)
        if isinstance(v, Opaque) and v.kind == "vec" and v.get("elems") is not None and src is not None:
            es = v.get("elems") + tuple(src)
            ctx.ip.write_loc(ctx.st, ref.loc, v.set(elems=es, n=len(es)))
            ctx.ip.event(ctx.st, "vec_extend", n=len(src), fn=ctx.fr.fn["path"])
            return ctx.ret(UNIT)
        raise Inconclusive("extend_from_slice with unknown contents in %s" % ctx.fr.fn["path"])

    def slice_elems(ctx, sl):
        """elements behind a slice reference (honouring sub-slice windows)"""
        if not isinstance(sl, RefVal):
            return None
        loc = sl.loc
        win = None
        proj = loc[-1]
        if proj and proj[-1][0] == "win":
            win = proj[-1]
            loc = loc[:-1] + (proj[:-1],)
        v = ctx.ip.read_loc(ctx.st, loc)
        if isinstance(v, RefVal):
            return slice_elems(ctx, v)
        elems, n, _ = ctx.ip.seq_elems(v)
        if elems is None:
            return None
        if win is not None:
            return elems[win[1]: win[2]]
        return elems

    S.slice_elems = slice_elems

    @S.on("alloc::vec::Vec::<T, A>::append")
    def vec_append(ctx):
        ref, other = ctx.args
        v = ctx.deref(ref)
        o = ctx.deref(other)
        if isinstance(v, Opaque) and isinstance(o, Opaque) and v.get("elems") is not None and o.get("elems") is not None:
            es = v.get("elems") + o.get("elems")
            ctx.ip.write_loc(ctx.st, ref.loc, v.set(elems=es, n=len(es)))
            ctx.ip.write_loc(ctx.st, other.loc, o.set(elems=(), n=0))
            return ctx.ret(UNIT)
        raise Inconclusive("Vec::append with unknown contents in %s" % ctx.fr.fn["path"])

    @S.on("<alloc::vec::Vec<T, A> as core::ops::deref::Deref>::deref", "<alloc::vec::Vec<T, A> as core::ops::deref::DerefMut>::deref_mut",
          "alloc::vec::Vec::<T, A>::as_slice", "alloc::vec::Vec::<T, A>::as_mut_slice",
          "<alloc::string::String as core::ops::deref::Deref>::deref", "alloc::string::String::as_str")
    def vec_deref(ctx):
        a = ctx.args[0]
        return ctx.ret(RefVal(a.loc, a.mut) if isinstance(a, RefVal) else ctx.top_ret())

    @S.pat(r"^core::slice::index::<impl core::ops::index::Index(Mut)?<I> for \[T\]>::index(_mut)?$",
           )
    def slice_index(ctx):
        sl, idx = ctx.args
        key = ctx.ip.site_key(ctx.fr.fn, ctx.call.get("span"), "call:index")
        n = None
        if isinstance(sl, RefVal):
            n = sl.meta if sl.meta is not None else ctx.ip.len_of(ctx.st, seq_of(ctx, sl))
        idx = ctx.arg_split(1)
        # index kinds: usize, Range, RangeTo, RangeFrom
        if isinstance(idx, IntVal):
            okk = n is not None and isinstance(n, IntVal) and idx.hi < n.lo and idx.lo >= 0
            ctx.ip.obligation(ctx.st, ctx.fr, key, okk, {"kind": "index", "index": repr(idx), "len": repr(n)})
            loc = sl.loc[:-1] + (sl.loc[-1] + (("i", idx),),)
            return ctx.ret(RefVal(loc, sl.mut))
        lo = hi = None
        if isinstance(idx, AdtVal) and idx.path == "core::ops::range::Range":
            lo, hi = idx.fields
        elif isinstance(idx, AdtVal) and idx.path == "core::ops::range::RangeTo":
            lo, hi = IntVal.const(USIZE, 0), idx.fields[0]
        elif isinstance(idx, AdtVal) and idx.path == "core::ops::range::RangeFrom":
            lo, hi = idx.fields[0], n
        elif isinstance(idx, AdtVal) and idx.path == "core::ops::range::RangeFull":
            return ctx.ret(sl)
        if isinstance(lo, IntVal) and isinstance(hi, IntVal) and isinstance(n, IntVal):
            okk = lo.hi <= hi.lo and hi.hi <= n.lo
            ctx.ip.obligation(ctx.st, ctx.fr, key, okk, {"kind": "range-index", "lo": repr(lo), "hi": repr(hi), "len": repr(n)})
            if lo.is_const() and hi.is_const():
                loc = sl.loc[:-1] + (sl.loc[-1] + (("win", lo.cval(), hi.cval()),),)
                return ctx.ret(RefVal(loc, sl.mut, meta=IntVal.const(USIZE, max(0, hi.cval() - lo.cval()))))
            ln = ctx.ip.arith(ctx.st, "Sub", hi, lo, wrap=False)
            return ctx.ret(RefVal(sl.loc[:-1] + (sl.loc[-1] + (("other",),),), sl.mut, meta=IntVal(USIZE, max(0, ln.lo), max(0, ln.hi))))
        ctx.ip.obligation(ctx.st, ctx.fr, key, False, {"kind": "index", "index": repr(idx), "len": repr(n)})
        return ctx.ret(ctx.top_ret())

    @S.pat(r"^<alloc::vec::Vec<T, A> as core::ops::index::Index(Mut)?<I>>::index(_mut)?$")
    def vec_index(ctx):
        return slice_index(ctx)

    @S.pat(r"^core::array::<impl core::ops::index::Index(Mut)?<I> for \[T; N\]>::index(_mut)?$")
    def array_index(ctx):
        return slice_index(ctx)

    @S.on("core::slice::<impl [T]>::split_at", "core::slice::<impl [T]>::split_at_mut")
    def slice_split_at(ctx):
        sl, mid = ctx.args
        key = ctx.ip.site_key(ctx.fr.fn, ctx.call.get("span"), "call:may-panic:" + ctx.path.rsplit("::", 1)[1])
        if not isinstance(sl, RefVal) or not isinstance(mid, IntVal):
            ctx.ip.obligation(ctx.st, ctx.fr, key, False, {"kind": "split_at", "mid": repr(mid)})
            return ctx.ret(ctx.top_ret())
        n = sl.meta if sl.meta is not None else ctx.ip.len_of(ctx.st, seq_of(ctx, sl))
        okk = isinstance(n, IntVal) and mid.hi <= n.lo
        ctx.ip.obligation(ctx.st, ctx.fr, key, okk, {"kind": "split_at", "mid": repr(mid), "len": repr(n)})
        if mid.is_const() and isinstance(n, IntVal) and n.is_const():
            m, k = mid.cval(), n.cval()
            a = RefVal(sl.loc[:-1] + (sl.loc[-1] + (("win", 0, m),),), sl.mut, meta=IntVal.const(USIZE, m))
            b = RefVal(sl.loc[:-1] + (sl.loc[-1] + (("win", m, k),),), sl.mut, meta=IntVal.const(USIZE, max(0, k - m)))
            return ctx.ret(TupleVal([a, b]))
        return ctx.ret(ctx.top_ret())

    @S.on("alloc::string::String::push")
    def string_push(ctx):
        ref, x = ctx.args
        v = ctx.deref(ref)
        if isinstance(v, Opaque) and v.kind == "string":
            if v.get("elems") is not None:
                es = v.get("elems") + (x,)
                nv = v.set(elems=es, n=len(es))
            else:
                nv = v.set(summary=join_val(v.get("summary"), x), n=_inc(v.get("n")))
            ctx.ip.write_loc(ctx.st, ref.loc, nv)
            return ctx.ret(UNIT)
        if isinstance(ref, RefVal):
            ctx.ip.write_loc(ctx.st, ref.loc, Opaque.make("string", elems=None, n=IntVal(USIZE, 1, (1 << 63) - 1), summary=join_val(None, x)))
        return ctx.ret(UNIT)

    @S.pat(r"^core::char::convert::<impl core::convert::From<u8> for char>::from$|^core::char::convert::<impl core::convert::From<char> for u(32|64|128)>::from$")
    def char_from(ctx):
        tyj = ctx.ret_ty() or {"k": "char"}
        return ctx.ret(ctx.ip.cast(ctx.st, "IntToInt", ctx.args[0], tyj))

    @S.on("core::option::Option::<T>::ok_or")
    def option_ok_or(ctx):
        r = split_enum_top(ctx, 0, OPTION, OPT_VARS)
        if r is not None:
            return r
        a = ctx.args[0]
        return ctx.ret(ok(a.fields[0]) if a.variant == 1 else err(ctx.args[1]))

    @S.on("core::option::Option::<T>::insert", "core::option::Option::<T>::replace")
    def option_insert(ctx):
        ref = ctx.args[0]
        if not isinstance(ref, RefVal):
            return NotImplemented
        old = ctx.ip.read_loc(ctx.st, ref.loc)
        ctx.ip.write_loc(ctx.st, ref.loc, some(ctx.args[1]))
        if ctx.path.endswith("replace"):
            return ctx.ret(old)
        return ctx.ret(RefVal(ref.loc[:-1] + (ref.loc[-1] + (("d", 1), ("f", 0, None)),), True))

    @S.on("core::option::Option::<T>::get_or_insert_with", "core::option::Option::<T>::get_or_insert")
    def option_get_or_insert(ctx):
        ref = ctx.args[0]
        if not isinstance(ref, RefVal):
            return NotImplemented
        cur = ctx.ip.read_loc(ctx.st, ref.loc)
        if isinstance(cur, Choice) or isinstance(cur, Top):
            r = split_enum_top(ctx, 0, OPTION, OPT_VARS) if False else None
        inner = RefVal(ref.loc[:-1] + (ref.loc[-1] + (("d", 1), ("f", 0, None)),), True)
        if isinstance(cur, AdtVal) and cur.path == OPTION:
            if cur.variant == 1:
                return ctx.ret(inner)
            if ctx.path.endswith("get_or_insert"):
                ctx.ip.write_loc(ctx.st, ref.loc, some(ctx.args[1]))
                return ctx.ret(inner)
            dest, target = ctx.dest, ctx.target

            def done(ip, st, rv):
                ip.write_loc(st, ref.loc, some(rv))
                return ip.finish_call(st, dest, target, inner)
            if ctx.call_closure(ctx.args[1], [], done):
                return None
            return NotImplemented
        if isinstance(cur, Choice):
            raise NeedSplit(ref.loc)
        if isinstance(cur, Top):
            m = ctx.ip.materialise_enum(cur)
            if m is not None:
                ctx.ip.write_loc(ctx.st, ref.loc, m)
                raise NeedSplit(ref.loc)
        return NotImplemented

    @S.on("core::option::Option::<T>::take")
    def option_take(ctx):
        ref = ctx.args[0]
        if not isinstance(ref, RefVal):
            return NotImplemented
        v = ctx.ip.read_loc(ctx.st, ref.loc)
        ctx.ip.write_loc(ctx.st, ref.loc, NONE)
        return ctx.ret(v)

    @S.on("core::mem::replace")
    def mem_replace(ctx):
        ref = ctx.args[0]
        if not isinstance(ref, RefVal):
            return NotImplemented
        v = ctx.ip.read_loc(ctx.st, ref.loc)
        ctx.ip.write_loc(ctx.st, ref.loc, ctx.args[1])
        return ctx.ret(v)

    @S.on("core::mem::swap")
    def mem_swap(ctx):
        a, b = ctx.args[0], ctx.args[1]
        if not isinstance(a, RefVal) or not isinstance(b, RefVal):
            return NotImplemented
        va, vb = ctx.ip.read_loc(ctx.st, a.loc), ctx.ip.read_loc(ctx.st, b.loc)
        ctx.ip.write_loc(ctx.st, a.loc, vb)
        ctx.ip.write_loc(ctx.st, b.loc, va)
        return ctx.ret(UNIT)

    @S.on("core::mem::take")
    def mem_take(ctx):
        ref = ctx.args[0]
        if not isinstance(ref, RefVal):
            return NotImplemented
        rty = ctx.ret_ty()
        d = None
        t = ty_of_json(rty) if rty else None
        if t is not None:
            d = IntVal.const(t, 0)
        elif rty and rty.get("k") == "float":
            d = FloatVal(rty["bits"], const=0.0, term=("const", "0.0"))
        elif rty and rty.get("k") == "adt" and rty["path"] == OPTION:
            d = NONE
        elif rty and rty.get("k") == "adt" and rty["path"] in ("alloc::vec::Vec", "alloc::string::String"):
            d = Opaque.make("string" if rty["path"].endswith("String") else "vec", elems=(), n=0, summary=None)
        if d is None:
            # a workspace type: run its Default impl
            fn = None
            if rty and rty.get("k") == "adt":
                for f in ctx.ip.prog.fns.values():
                    im = f.get("impl")
                    if f.get("name") == "default" and im and im.get("trait_def") == "core::default::Default" and im["self_ty"].get("k") == "adt" and im["self_ty"]["path"] == rty["path"]:
                        fn = f
                        break
            if fn is None:
                return NotImplemented
            dest, target, loc = ctx.dest, ctx.target, ref.loc

            def done(ip, st, rv):
                old_v = ip.read_loc(st, loc)
                ip.write_loc(st, loc, rv)
                return ip.finish_call(st, dest, target, old_v)
            ctx.ip.call_fn(ctx.st, fn, [], on_return=done)
            return None
        v = ctx.ip.read_loc(ctx.st, ref.loc)
        ctx.ip.write_loc(ctx.st, ref.loc, d)
        return ctx.ret(v)

    @S.on("core::option::Option::<T>::unwrap_or_default", "core::result::Result::<T, E>::unwrap_or_default")
    def unwrap_or_default(ctx):
        isopt = "option" in ctx.path
        r = split_enum_top(ctx, 0, OPTION if isopt else RESULT, OPT_VARS if isopt else RES_VARS)
        if r is not None:
            return r
        a = ctx.args[0]
        good = 1 if isopt else 0
        if a.variant == good:
            return ctx.ret(a.fields[0])
        rty = ctx.ret_ty()
        t = ty_of_json(rty) if rty else None
        if t is not None:
            return ctx.ret(IntVal.const(t, 0))
        return NotImplemented

    @S.on("core::option::Option::<T>::unwrap_or_else", "core::result::Result::<T, E>::unwrap_or_else")
    def unwrap_or_else(ctx):
        isopt = "option" in ctx.path
        r = split_enum_top(ctx, 0, OPTION if isopt else RESULT, OPT_VARS if isopt else RES_VARS)
        if r is not None:
            return r
        a = ctx.args[0]
        good = 1 if isopt else 0
        if a.variant == good:
            return ctx.ret(a.fields[0])
        dest, target = ctx.dest, ctx.target
        if ctx.call_closure(ctx.args[1], [] if isopt else [a.fields[0]], lambda ip, st, rv: ip.finish_call(st, dest, target, rv)):
            return None
        return NotImplemented

    @S.on("alloc::vec::Vec::<T, A>::last", "core::slice::<impl [T]>::last")
    def vec_last(ctx):
        v = seq_of(ctx, ctx.args[0])
        elems, n, summ = ctx.ip.seq_elems(v)
        if elems is not None:
            if not elems:
                return ctx.ret(NONE)
            a = ctx.args[0]
            return ctx.ret(some(RefVal(a.loc[:-1] + (a.loc[-1] + (("i", len(elems) - 1),),), False)))
        return ctx.ret(ctx.top_ret())

    @S.on("alloc::vec::Vec::<T, A>::pop")
    def vec_pop(ctx):
        ref = ctx.args[0]
        v = ctx.deref(ref)
        if isinstance(v, Opaque) and v.kind == "vec" and v.get("elems") is not None:
            es = v.get("elems")
            if not es:
                return ctx.ret(NONE)
            ctx.ip.write_loc(ctx.st, ref.loc, v.set(elems=es[:-1], n=len(es) - 1))
            return ctx.ret(some(es[-1]))
        raise Inconclusive("Vec::pop on a vector of unknown contents in %s" % ctx.fr.fn["path"])

    @S.on("alloc::vec::Vec::<T, A>::truncate")
    def vec_truncate(ctx):
        """exact: a vector of L known elements truncated to an integer in [lo, hi] ends with one of finitely many lengths;
        one successor per feasible length (k < L: the argument is k; L: the argument is >= L and nothing changes)"""
        ref, n = ctx.args
        v = ctx.deref(ref)
        if isinstance(n, Choice):
            n = ctx.ip.join_choice(n)
        if not (isinstance(v, Opaque) and v.kind == "vec" and v.get("elems") is not None and isinstance(n, IntVal)):
            raise Inconclusive("Vec::truncate on a vector of unknown contents in %s" % ctx.fr.fn["path"])
        es = v.get("elems")
        L = len(es)
        ks = [k for k in range(L + 1) if (n.lo <= k <= n.hi if k < L else n.hi >= L)]
        pairs = []
        for i, k in enumerate(ks):
            s2 = ctx.st if i == len(ks) - 1 else ctx.st.copy()
            if k < L:
                ctx.ip.write_loc(s2, ref.loc, v.set(elems=es[:k], n=k))
            pairs.append((s2, UNIT))
        return ctx.ret_states(pairs)

    @S.on("alloc::vec::Vec::<T, A>::clear", "alloc::string::String::clear")
    def vec_clear(ctx):
        ref = ctx.args[0]
        kind = "string" if "String" in ctx.path else "vec"
        ctx.ip.write_loc(ctx.st, ref.loc, Opaque.make(kind, elems=(), n=0, summary=None))
        return ctx.ret(UNIT)
