"""Lazy iterator model: sources (slice / Vec / array / range / BTreeMap iterators), adaptors (map, filter, filter_map, enumerate,
rev, copied, cloned, take, skip, zip, chain) and consumers (next, collect, any, all, find, find_map, position, count, last, fold,
for_each, sum, min/max are left to the generic fallback).

An iterator is a value. Adaptors wrap their inner iterator: Opaque("adapt", op=..., inner=<iterator value>, f=<closure>, ...).
`pull(ip, st, it)` advances an iterator by one element and returns every outcome as (state, new iterator value, element) where the
element is END when exhausted and DEAD when the state stopped inside a closure (panicked / diverged; the state is passed through).
Sources of unknown length yield at most one arbitrary element (the body of a loop is analysed for an arbitrary element), as the
BTreeMap iterator model already did."""
from .values import (BOOL, USIZE, AdtVal, ArrayVal, Choice, IntVal, Opaque, RefVal, Top, TupleVal, UNIT, deps_of)
from .interp import Inconclusive, NeedSplit, top_of, join_val
from .summaries import OPTION, some, NONE

END = object()
DEAD = object()
SKIP = object()     # an element a filter rejected (only handed to callers that asked for it: the iterator stays at one position per pull)

ADAPT_NEXT = (r"^<core::iter::adapters::\w+::\w+<.*> as core::iter::traits::(iterator::Iterator|double_ended::DoubleEndedIterator)>::next(_back)?$"
              r"|^<core::slice::iter::Iter(Mut)?<'a, T> as core::iter::traits::iterator::Iterator>::next$"
              r"|^<alloc::vec::into_iter::IntoIter<T, A> as core::iter::traits::iterator::Iterator>::next$"
              r"|^<core::array::iter::IntoIter<T, N> as core::iter::traits::iterator::Iterator>::next$")


def soft(f):
    """an iterator shape the model cannot handle falls back to the generic unknown-call treatment (havoc + unknown result)"""
    def g(ctx):
        try:
            return f(ctx)
        except Inconclusive:
            return NotImplemented
    g.__name__ = f.__name__
    return g


def register(S):
    def is_iter(v):
        return (isinstance(v, Opaque) and v.kind in ("adapt", "vec_iter", "slice_iter", "map_iter", "range_incl")) or \
               (isinstance(v, AdtVal) and v.path == "core::ops::range::Range")

    def resolve_closure(ip, st, clos):
        cv = ip.read_loc(st, clos.loc) if isinstance(clos, RefVal) else clos
        if isinstance(cv, AdtVal) and cv.kind == "closure":
            fn = ip.prog.fns.get(cv.path)
            if fn is None:
                return None
            env = clos
            envty = fn["locals"][1]["ty"]
            if envty.get("k") == "ref" and not isinstance(env, RefVal):
                env = RefVal(st.new_heap(cv), envty.get("mut", False))
            elif envty.get("k") != "ref" and isinstance(env, RefVal):
                env = cv
            return fn, [env]
        if isinstance(cv, Opaque) and cv.kind == "fnptr":
            fn = ip.prog.fns.get(cv.get("path"))
            if fn is None:
                return None
            return fn, []
        return None

    def call_external(ip, st, path, cargs):
        """apply a function item of another crate (e.g. `f64::to_radians` passed to map) through its transfer function"""
        from .summaries import CallCtx
        cell = st.new_heap(None)
        callee = {"path": path, "resolved": path, "full": path, "targs": [], "closure_defs": [], "trait": None, "self_ty": None}
        call = {"callee": callee, "args": [], "dest": {"local": 0, "proj": [{"synthetic": True}]}, "target": "stay", "span": None}
        s2 = st.copy()
        r = ip.summaries.dispatch(ip, s2, s2.top(), callee, list(cargs), cell, "stay", call, None)
        if r is NotImplemented:
            raise Inconclusive("iterator adaptor: no transfer function for the function item %s" % path)
        outs = [s2] if r is None else r
        return [(o, o.heap.get(cell[1]) if o.status == "run" else DEAD) for o in outs]

    def call_sync(ip, st, clos, cargs):
        """-> [(state, return value or DEAD)]"""
        r = resolve_closure(ip, st, clos)
        if r is None:
            cv = ip.read_loc(st, clos.loc) if isinstance(clos, RefVal) else clos
            if isinstance(cv, Opaque) and cv.kind == "fnptr" and cv.get("path"):
                return call_external(ip, st, cv.get("path"), cargs)
            raise Inconclusive("iterator adaptor: callback is not a workspace closure / function")
        fn, pre = r
        out = []
        for s2, rv in ip.run_nested(st, fn, pre + list(cargs)):
            if s2.status != "run" or rv is None:
                out.append((s2, DEAD))
            else:
                out.append((s2, rv))
        return out

    S.call_sync = call_sync

    def split_bool(ip, st, rv):
        """-> [(state, truth)] for a closure's boolean result"""
        if isinstance(rv, Choice):
            j = ip.join_choice(rv)
            rv = j if j is not None else IntVal.top(BOOL, deps=deps_of(rv))
        if isinstance(rv, IntVal) and rv.is_const():
            return [(st, bool(rv.lo))]
        out = []
        if isinstance(rv, IntVal):
            for want in (1, 0):
                s2 = st.copy()
                if ip.assume_bool(s2, rv, want):
                    out.append((s2, bool(want)))
            return out
        return [(st, True), (st.copy(), False)]

    def split_option(ip, st, rv):
        """-> [(state, payload or END)] for an Option value (closure result of filter_map / find_map)"""
        alts = rv.alts if isinstance(rv, Choice) else [((), rv)]
        out = []
        for d, v in alts:
            s2 = st.copy() if len(alts) > 1 else st
            okk = True
            for f in d:
                if not s2.pc.apply_fact(f) or s2.pc.dead:
                    okk = False
                    break
            if not okk:
                continue
            if isinstance(v, AdtVal) and v.path == OPTION:
                out.append((s2, END if v.variant == 0 else v.fields[0]))
            elif isinstance(v, Top):
                s3 = s2.copy()
                targs = (v.ty or {}).get("args") or [None]
                out.append((s2, top_of(targs[0], v.deps, v.tags)))
                out.append((s3, END))
            else:
                raise Inconclusive("iterator adaptor: closure result %r is not an Option" % (v,))
        return out

    # ------------------------------------------------------------------------------------------ sources
    def seq_info(ip, st, ref):
        """(holder ref, elems or None, summary) for a reference to a slice / array / Vec"""
        r = ref
        v = ip.read_loc(st, r.loc) if isinstance(r, RefVal) else r
        hops = 0
        while isinstance(v, RefVal) and hops < 3:
            r = v
            v = ip.read_loc(st, v.loc)
            hops += 1
        if isinstance(v, Choice):
            raise NeedSplit(r.loc)
        elems, n, summ = ip.seq_elems(v)
        return r, elems, summ, v

    @S.on("core::slice::<impl [T]>::iter", "core::slice::<impl [T]>::iter_mut")
    def slice_iter(ctx):
        a = ctx.args[0]
        if not isinstance(a, RefVal):
            return NotImplemented
        r, elems, summ, v = seq_info(ctx.ip, ctx.st, a)
        mut = ctx.path.endswith("iter_mut")
        if elems is None and mut:
            return NotImplemented
        return ctx.ret(Opaque.make("slice_iter", base=r, n=None if elems is None else len(elems), pos=0, back=0, mut=mut,
                                   summary=summ if elems is None else None, ety=(ctx.callee.get("targs") or [None])[0]))

    @S.pat(r"^<&'a (mut )?(alloc::vec::Vec<T, A>|\[T; N\]|\[T\]) as core::iter::traits::collect::IntoIterator>::into_iter$|^core::(array|slice)::(iter::)?<impl core::iter::traits::collect::IntoIterator for &'a (mut )?\[T(; N)?\]>::into_iter$|^alloc::vec::<impl core::iter::traits::collect::IntoIterator for &'a (mut )?alloc::vec::Vec<T, A>>::into_iter$")
    def ref_into_iter(ctx):
        a = ctx.args[0]
        if not isinstance(a, RefVal):
            return NotImplemented
        r, elems, summ, v = seq_info(ctx.ip, ctx.st, a)
        mut = "&'a mut" in ctx.path
        if elems is None and mut:
            return NotImplemented
        return ctx.ret(Opaque.make("slice_iter", base=r, n=None if elems is None else len(elems), pos=0, back=0, mut=mut,
                                   summary=summ if elems is None else None, ety=(ctx.callee.get("targs") or [None])[0]))

    @S.pat(r"^<\[T; N\] as core::iter::traits::collect::IntoIterator>::into_iter$|^core::array::(iter::)?<impl core::iter::traits::collect::IntoIterator for \[T; N\]>::into_iter$")
    def array_into_iter(ctx):
        v = ctx.args[0]
        if isinstance(v, ArrayVal) and v.elems is not None:
            return ctx.ret(Opaque.make("vec_iter", elems=tuple(v.elems), summary=None, pos=0))
        return NotImplemented

    @S.pat(r"^core::array::<impl \[T; N\]>::map$")
    @soft
    def array_map(ctx):
        arr = ctx.args[0]
        if not (isinstance(arr, ArrayVal) and arr.elems is not None):
            return NotImplemented
        ip = ctx.ip
        work = [(ctx.st.copy(), ())]
        for e in arr.elems:
            nxt = []
            for s, acc in work:
                for s2, rv in call_sync(ip, s, ctx.args[1], [e]):
                    if rv is DEAD:
                        return NotImplemented
                    nxt.append((s2, acc + (rv,)))
            work = nxt
            if len(work) > 64:
                return NotImplemented
        outs = []
        for s, acc in work:
            ip.finish_call(s, ctx.dest, ctx.target, ArrayVal(list(acc), len(acc)))
            outs.append(s)
        return outs

    def elem_ref(base, i):
        return RefVal(base.loc[:-1] + (base.loc[-1] + (("i", i),),), False)

    def pull(ip, st, it, back=False, skip_ok=False):
        if isinstance(it, Opaque) and it.kind == "vec_iter":
            elems = it.get("elems")
            pos = it.get("pos")
            if elems is not None:
                hi = len(elems) - (it.get("back") or 0)
                if pos >= hi:
                    return [(st, it, END)]
                if back:
                    return [(st, it.set(back=(it.get("back") or 0) + 1), elems[hi - 1])]
                return [(st, it.set(pos=pos + 1), elems[pos])]
            if pos >= 1:
                return [(st, it, END)]
            s2 = st.copy()
            return [(st, it.set(pos=1), it.get("summary")), (s2, it.set(pos=1), END)]
        if isinstance(it, Opaque) and it.kind == "slice_iter":
            n, pos, bk = it.get("n"), it.get("pos"), it.get("back") or 0
            if n is not None:
                if pos >= n - bk:
                    return [(st, it, END)]
                if back:
                    r = elem_ref(it.get("base"), n - bk - 1)
                    return [(st, it.set(back=bk + 1), RefVal(r.loc, it.get("mut")))]
                r = elem_ref(it.get("base"), pos)
                return [(st, it.set(pos=pos + 1), RefVal(r.loc, it.get("mut")))]
            if pos >= 1:
                return [(st, it, END)]
            s2 = st.copy()
            cell = st.new_heap(it.get("summary") if it.get("summary") is not None else top_of(it.get("ety")))
            return [(st, it.set(pos=1), RefVal(cell, False)), (s2, it.set(pos=1), END)]
        if isinstance(it, Opaque) and it.kind == "map_iter" and it.get("map") is not None:
            return S.btree_pull(ip, st, it)
        if (isinstance(it, AdtVal) and it.path == "core::ops::range::Range") or (isinstance(it, Opaque) and it.kind == "range_incl"):
            return S.range_pull(ip, st, it)
        if isinstance(it, Opaque) and it.kind == "adapt":
            return pull_adapt(ip, st, it, back, skip_ok=skip_ok)
        raise Inconclusive("iterator model: cannot advance %r" % (it,))

    S.iter_pull = pull

    def pull_adapt(ip, st, it, back, fuel=64, skip_ok=False):
        op = it.get("op")
        inner = it.get("inner")
        if op == "rev":
            return [(s, it.set(inner=i2) if e is not DEAD else it, e) for s, i2, e in pull(ip, st, inner, not back, skip_ok)]
        if op == "take":
            if it.get("n") is None:
                raise Inconclusive("take(n) with a non-constant n")
            if it.get("n") <= 0:
                return [(st, it, END)]
            return [(s, it.set(inner=i2, n=it.get("n") - (0 if e in (END, DEAD) else 1)) if e is not DEAD else it, e) for s, i2, e in pull(ip, st, inner, back)]
        if op == "skip":
            k = it.get("n")
            if k is None:
                raise Inconclusive("skip(n) with a non-constant n")
            if k > 0:
                outs = []
                for s, i2, e in pull(ip, st, inner, back):
                    if e is DEAD or e is END:
                        outs.append((s, it.set(inner=i2) if e is END else it, e))
                    else:
                        outs.extend(pull_adapt(ip, s, it.set(inner=i2, n=k - 1), back, fuel))
                return outs
            return [(s, it.set(inner=i2) if e is not DEAD else it, e) for s, i2, e in pull(ip, st, inner, back)]
        if op == "chain":
            outs = []
            if not it.get("first_done"):
                for s, i2, e in pull(ip, st, inner, back):
                    if e is END:
                        outs.extend(pull_adapt(ip, s, it.set(inner=i2, first_done=True), back, fuel))
                    else:
                        outs.append((s, it.set(inner=i2) if e is not DEAD else it, e))
                return outs
            for s, o2, e in pull(ip, st, it.get("other"), back):
                outs.append((s, it.set(other=o2) if e is not DEAD else it, e))
            return outs
        if op == "zip":
            outs = []
            for s, i2, e in pull(ip, st, inner, back):
                if e is END or e is DEAD:
                    outs.append((s, it.set(inner=i2) if e is END else it, e))
                    continue
                for s3, o2, e2 in pull(ip, s, it.get("other"), back):
                    if e2 is END or e2 is DEAD:
                        outs.append((s3, it.set(inner=i2, other=o2) if e2 is END else it, e2))
                    else:
                        outs.append((s3, it.set(inner=i2, other=o2), TupleVal([e, e2])))
            return outs
        outs = []
        pass_skip = skip_ok and op in ("map", "filter", "filter_map", "copied", "cloned", "enumerate")
        for s, i2, e in pull(ip, st, inner, back, pass_skip):
            it2 = it.set(inner=i2)
            if e is DEAD:
                outs.append((s, it, DEAD))
                continue
            if e is END:
                outs.append((s, it2, END))
                continue
            if e is SKIP:
                outs.append((s, it2, SKIP))
                continue
            if op == "enumerate":
                k = it.get("idx")
                outs.append((s, it2.set(idx=k + 1), TupleVal([IntVal.const(USIZE, k), e])))
            elif op in ("copied", "cloned"):
                v = ip.read_loc(s, e.loc) if isinstance(e, RefVal) else e
                outs.append((s, it2, v))
            elif op == "map":
                for s2, rv in call_sync(ip, s, it.get("f"), [e]):
                    outs.append((s2, it2, rv))
            elif op == "filter":
                eref = RefVal(s.new_heap(e), False)
                for s2, rv in call_sync(ip, s, it.get("f"), [eref]):
                    if rv is DEAD:
                        outs.append((s2, it2, DEAD))
                        continue
                    for s3, truth in split_bool(ip, s2, rv):
                        if truth:
                            outs.append((s3, it2, ip.read_loc(s3, eref.loc)))
                        elif skip_ok:
                            outs.append((s3, it2, SKIP))
                        elif fuel > 0:
                            outs.extend(pull_adapt(ip, s3, it2, back, fuel - 1))
                        else:
                            raise Inconclusive("iterator model: filter fuel exhausted")
            elif op in ("take_while", "skip_while"):
                if op == "take_while" and it.get("done"):
                    outs.append((s, it, END))
                    continue
                if op == "skip_while" and not it.get("skipping"):
                    outs.append((s, it2, e))
                    continue
                eref = RefVal(s.new_heap(e), False)
                for s2, rv in call_sync(ip, s, it.get("f"), [eref]):
                    if rv is DEAD:
                        outs.append((s2, it2, DEAD))
                        continue
                    for s3, truth in split_bool(ip, s2, rv):
                        ev = ip.read_loc(s3, eref.loc)
                        if op == "take_while":
                            outs.append((s3, it2, ev) if truth else (s3, it2.set(done=True), END))
                        elif truth:
                            if fuel <= 0:
                                raise Inconclusive("iterator model: skip_while fuel exhausted")
                            outs.extend(pull_adapt(ip, s3, it2, back, fuel - 1))
                        else:
                            outs.append((s3, it2.set(skipping=False), ev))
            elif op == "map_while":
                if it.get("done"):
                    outs.append((s, it, END))
                    continue
                for s2, rv in call_sync(ip, s, it.get("f"), [e]):
                    if rv is DEAD:
                        outs.append((s2, it2, DEAD))
                        continue
                    for s3, pv in split_option(ip, s2, rv):
                        outs.append((s3, it2, pv) if pv is not END else (s3, it2.set(done=True), END))
            elif op == "filter_map":
                for s2, rv in call_sync(ip, s, it.get("f"), [e]):
                    if rv is DEAD:
                        outs.append((s2, it2, DEAD))
                        continue
                    for s3, pv in split_option(ip, s2, rv):
                        if pv is not END:
                            outs.append((s3, it2, pv))
                        elif skip_ok:
                            outs.append((s3, it2, SKIP))
                        elif fuel > 0:
                            outs.extend(pull_adapt(ip, s3, it2, back, fuel - 1))
                        else:
                            raise Inconclusive("iterator model: filter_map fuel exhausted")
            else:
                raise Inconclusive("iterator model: adaptor %s" % op)
        return outs

    # ------------------------------------------------------------------------------------------ adaptors
    def const_usize(v):
        return v.cval() if isinstance(v, IntVal) and v.is_const() else None

    @S.pat(r"^core::iter::traits::iterator::Iterator::(map|filter|filter_map|enumerate|copied|cloned|take|skip|zip|chain|rev|by_ref|peekable|fuse|take_while|skip_while|map_while)$"
           r"|^core::iter::traits::double_ended::DoubleEndedIterator::rev$|^<.* as core::iter::traits::iterator::Iterator>::(map|filter|filter_map|enumerate|copied|cloned|take|skip|zip|chain|rev|fuse|take_while|skip_while|map_while)$")
    def adaptor(ctx):
        op = ctx.path.rsplit("::", 1)[1]
        it = ctx.args[0]
        if not is_iter(it):
            return NotImplemented
        if op == "fuse":
            return ctx.ret(it)
        if op in ("by_ref", "peekable"):
            return NotImplemented
        kw = {"op": op, "inner": it}
        if op in ("map", "filter", "filter_map", "take_while", "skip_while", "map_while"):
            kw["f"] = ctx.args[1]
            if op in ("take_while", "map_while"):
                kw["done"] = False
            if op == "skip_while":
                kw["skipping"] = True
        elif op == "enumerate":
            kw["idx"] = 0
        elif op in ("take", "skip"):
            kw["n"] = const_usize(ctx.args[1])
        elif op in ("zip", "chain"):
            other = ctx.args[1]
            if isinstance(other, RefVal):
                # IntoIterator for a reference to a sequence
                try:
                    r, elems, summ, v = seq_info(ctx.ip, ctx.st, other)
                except NeedSplit:
                    raise
                other = Opaque.make("slice_iter", base=r, n=None if elems is None else len(elems), pos=0, back=0, mut=False, summary=summ if elems is None else None, ety=None)
            elif isinstance(other, Opaque) and other.kind == "vec":
                other = Opaque.make("vec_iter", elems=other.get("elems"), summary=other.get("summary"), pos=0)
            elif isinstance(other, ArrayVal) and other.elems is not None:
                other = Opaque.make("vec_iter", elems=tuple(other.elems), summary=None, pos=0)
            if not is_iter(other):
                return NotImplemented
            kw["other"] = other
            if op == "chain":
                kw["first_done"] = False
        return ctx.ret(Opaque.make("adapt", **kw))

    # ------------------------------------------------------------------------------------------ next
    @S.pat(ADAPT_NEXT)
    @soft
    def generic_next(ctx):
        itref = ctx.args[0]
        if not isinstance(itref, RefVal):
            return NotImplemented
        it = ctx.deref(itref)
        if not is_iter(it):
            if isinstance(it, Top) or (isinstance(it, Opaque) and it.kind not in ("reader", "src")):
                # an iterator the model knows nothing about (result of an unmodelled call): at most one arbitrary element, so that
                # the loop body is analysed for an arbitrary element and the analysis terminates
                rty = ctx.ret_ty() or {}
                ety = (rty.get("args") or [None])[0] if rty.get("k") == "adt" else None
                it = Opaque.make("vec_iter", elems=None, summary=top_of(ety, deps_of(it)), pos=0)
            else:
                return NotImplemented
        back = ctx.path.endswith("next_back")
        outs = []
        for s, it2, e in pull(ctx.ip, ctx.st.copy(), it, back):
            if e is DEAD:
                outs.append(s)
                continue
            ctx.ip.write_loc(s, itref.loc, it2)
            ctx.ip.finish_call(s, ctx.dest, ctx.target, NONE if e is END else some(e))
            outs.append(s)
        return outs

    # ------------------------------------------------------------------------------------------ consumers
    def drain(ip, st, it, step, acc0, limit=4096):
        """run the iterator to exhaustion (or until step says stop): step(state, acc, elem) -> [(state, acc', stop?)].
        -> [(state, acc, finished_normally) or (state, DEAD, None)]"""
        work = [(st, it, acc0)]
        done = []
        n = 0

        def has_filter(x):
            while isinstance(x, Opaque) and x.kind == "adapt":
                if x.get("op") in ("filter", "filter_map"):
                    return True
                x = x.get("inner")
            return False
        filt = has_filter(it)
        while work:
            s, i, acc = work.pop()
            n += 1
            if n > limit:
                raise Inconclusive("iterator model: drain limit")
            s_pre = s.copy() if filt else None
            cont = []
            for s2, i2, e in pull(ip, s, i, skip_ok=True):
                if e is DEAD:
                    done.append((s2, DEAD, None))
                elif e is END:
                    done.append((s2, acc, True))
                elif e is SKIP:
                    cont.append((s2, i2, acc))
                else:
                    for s3, acc3, stop in step(s2, acc, e):
                        if acc3 is DEAD:
                            done.append((s3, DEAD, None))
                        elif stop:
                            done.append((s3, acc3, False))
                        else:
                            cont.append((s3, i2, acc3))
            if s_pre is not None and len(cont) == 2:
                m = mux_pair(ip, s_pre, cont[0], cont[1])
                if m is not None:
                    cont = [m]
            work.extend(cont)
        return done

    def mux_pair(ip, s_pre, a, b):
        """two continuations of one element that differ by a single decision on one input-bit expression (kept / rejected by a filter)
        are merged into one state whose values are multiplexed on that bit - as the interpreter does at the join of an if"""
        from .values import fp as _fp
        (sa, ia, acca), (sb, ib, accb) = a, b
        VALS = (IntVal, AdtVal, TupleVal, ArrayVal, RefVal, Opaque)
        if not isinstance(acca, VALS) or not isinstance(accb, VALS):
            return None
        if sa.status != "run" or sb.status != "run" or _fp(ia) != _fp(ib):
            return None
        n0 = len(s_pre.pc.log)
        da, db = sa.pc.log[n0:], sb.pc.log[n0:]
        if len(da) != 1 or len(db) != 1 or da[0][0] != "lin" or db[0][0] != "lin" or da[0][1] != db[0][1] or da[0][2] == db[0][2]:
            return None
        e = (da[0][1], da[0][2] ^ 1)      # `sa` is the arm on which e = 1
        cid = max(sa.next_id, sb.next_id) + 1
        sa.heap[cid] = acca
        sb.heap[cid] = accb
        ip._mux_tags = frozenset()
        m = ip.mux_states(s_pre, e, sa, sb)
        sa.heap.pop(cid, None)
        sb.heap.pop(cid, None)
        if m is None:
            return None
        acc = m.heap.pop(cid, None)
        if acc is None:
            return None
        m.next_id = max(m.next_id, cid + 1)
        return (m, ia, acc)

    def finish(ctx, results, value_of):
        outs = []
        for s, acc, normal in results:
            if acc is DEAD:
                outs.append(s)
                continue
            ctx.ip.finish_call(s, ctx.dest, ctx.target, value_of(s, acc, normal))
            outs.append(s)
        return outs

    CONS = r"(core::iter::traits::iterator::Iterator|<.* as core::iter::traits::iterator::Iterator>)::"

    @S.pat(r"^" + CONS + r"collect$")
    @soft
    def collect(ctx):
        it = ctx.args[0]
        if not is_iter(it):
            return NotImplemented
        rty = ctx.ret_ty() or {}
        if rty.get("path") not in ("alloc::string::String", "alloc::vec::Vec"):
            return NotImplemented
        kind = "string" if rty.get("path") == "alloc::string::String" else "vec"
        unknown_len = [False]

        def generic_src(x):
            while isinstance(x, Opaque) and x.kind == "adapt":
                if x.get("op") in ("zip", "chain") and generic_src(x.get("other")):
                    return True
                x = x.get("inner")
            if isinstance(x, Opaque) and x.kind in ("vec_iter",):
                return x.get("elems") is None
            if isinstance(x, Opaque) and x.kind == "slice_iter":
                return x.get("n") is None
            if isinstance(x, Opaque) and x.kind == "map_iter":
                # a map whose whole contents are known is iterated entry by entry
                try:
                    m0 = ctx.ip.read_loc(ctx.st, x.get("map").loc)
                except Exception:
                    return True
                return not (isinstance(m0, Opaque) and m0.kind == "btreemap" and m0.get("complete") and m0.get("keys") is not None
                            and len(m0.get("keys")) == len(m0.get("cells")))
            if isinstance(x, AdtVal):
                return not (isinstance(x.fields[0], IntVal) and x.fields[0].is_const() and isinstance(x.fields[1], IntVal) and x.fields[1].is_const())
            return False
        gen = generic_src(it)
        res = drain(ctx.ip, ctx.st.copy(), it, lambda s, acc, e: [(s, acc + (e,), False)], ())

        def value(s, acc, normal):
            if gen:
                summ = None
                for x in acc:
                    summ = join_val(summ, x)
                return Opaque.make(kind, elems=None, n=IntVal(USIZE, 0, 1 << 40), summary=summ)
            return Opaque.make(kind, elems=tuple(acc), n=len(acc), summary=None)
        return finish(ctx, res, value)

    @S.pat(r"^" + CONS + r"(any|all)$")
    @soft
    def any_all(ctx):
        it = ctx.args[0]
        itref = None
        if isinstance(it, RefVal):
            itref = it
            it = ctx.deref(it)
        if not is_iter(it):
            return NotImplemented
        is_any = ctx.path.endswith("any")
        f = ctx.args[1]
        ip = ctx.ip

        def step(s, acc, e):
            outs = []
            for s2, rv in call_sync(ip, s, f, [e]):
                if rv is DEAD:
                    outs.append((s2, DEAD, True))
                    continue
                for s3, truth in split_bool(ip, s2, rv):
                    if truth == is_any:
                        outs.append((s3, True, True))       # decided
                    else:
                        outs.append((s3, False, False))
            return outs
        res = drain(ip, ctx.st.copy(), it, step, False)
        return finish(ctx, res, lambda s, acc, normal: IntVal.const(BOOL, int(is_any if acc else (not is_any))))

    @S.pat(r"^" + CONS + r"(find|find_map|position)$")
    @soft
    def find(ctx):
        it = ctx.args[0]
        itref = None
        if isinstance(it, RefVal):
            itref = it
            it = ctx.deref(it)
        if not is_iter(it):
            return NotImplemented
        op = ctx.path.rsplit("::", 1)[1]
        f = ctx.args[1]
        ip = ctx.ip

        def step(s, acc, e):
            outs = []
            idx = acc[1]
            if op == "find":
                eref = RefVal(s.new_heap(e), False)
                for s2, rv in call_sync(ip, s, f, [eref]):
                    if rv is DEAD:
                        outs.append((s2, DEAD, True))
                        continue
                    for s3, truth in split_bool(ip, s2, rv):
                        outs.append((s3, (ip.read_loc(s3, eref.loc), idx), True) if truth else (s3, (None, idx + 1), False))
            elif op == "position":
                for s2, rv in call_sync(ip, s, f, [e]):
                    if rv is DEAD:
                        outs.append((s2, DEAD, True))
                        continue
                    for s3, truth in split_bool(ip, s2, rv):
                        outs.append((s3, (IntVal.const(USIZE, idx), idx), True) if truth else (s3, (None, idx + 1), False))
            else:
                for s2, rv in call_sync(ip, s, f, [e]):
                    if rv is DEAD:
                        outs.append((s2, DEAD, True))
                        continue
                    for s3, pv in split_option(ip, s2, rv):
                        outs.append((s3, (pv, idx), True) if pv is not END else (s3, (None, idx + 1), False))
            return outs
        res = drain(ip, ctx.st.copy(), it, step, (None, 0))
        return finish(ctx, res, lambda s, acc, normal: NONE if acc[0] is None else some(acc[0]))

    @S.pat(r"^" + CONS + r"(count|last)$")
    @soft
    def count_last(ctx):
        it = ctx.args[0]
        if not is_iter(it):
            return NotImplemented
        op = ctx.path.rsplit("::", 1)[1]
        res = drain(ctx.ip, ctx.st.copy(), it, lambda s, acc, e: [(s, (acc[0] + 1, e), False)], (0, None))
        if op == "count":
            # exact only for sources of known length
            x = it
            while isinstance(x, Opaque) and x.kind == "adapt":
                x = x.get("inner")
            known = (isinstance(x, Opaque) and ((x.kind == "vec_iter" and x.get("elems") is not None) or (x.kind == "slice_iter" and x.get("n") is not None)))
            if not known:
                return NotImplemented
            return finish(ctx, res, lambda s, acc, normal: IntVal.const(USIZE, acc[0]))
        return finish(ctx, res, lambda s, acc, normal: NONE if acc[1] is None else some(acc[1]))

    @S.pat(r"^" + CONS + r"for_each$")
    @soft
    def for_each(ctx):
        it = ctx.args[0]
        if not is_iter(it):
            return NotImplemented
        f = ctx.args[1]
        ip = ctx.ip

        def step(s, acc, e):
            return [(s2, DEAD if rv is DEAD else acc, rv is DEAD) for s2, rv in call_sync(ip, s, f, [e])]
        res = drain(ip, ctx.st.copy(), it, step, 0)
        return finish(ctx, res, lambda s, acc, normal: UNIT)

    @S.pat(r"^" + CONS + r"fold$")
    @soft
    def fold(ctx):
        it = ctx.args[0]
        if not is_iter(it):
            return NotImplemented
        f = ctx.args[2]
        ip = ctx.ip

        def step(s, acc, e):
            return [(s2, DEAD if rv is DEAD else rv, rv is DEAD) for s2, rv in call_sync(ip, s, f, [acc, e])]
        res = drain(ip, ctx.st.copy(), it, step, ctx.args[1])
        return finish(ctx, res, lambda s, acc, normal: acc)
