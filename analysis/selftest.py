"""Thorough-tier self-test: the seeded property-breaking changes under /verif/seeded/<name>/ (patch.diff + meta.json) are applied,
one at a time, to a scratch copy of /repo OUTSIDE /repo and /verif; the property's quick rules are run against the copy in a
subprocess and must report a violation. A missed seed is a defect of the checker (printed as SELFTEST-MISS) - it never produces
a VIOLATION line, because the verdict is about /repo."""
import json
import os
import shutil
import subprocess
import sys
import tempfile

VERIF = os.path.dirname(os.path.dirname(os.path.abspath(__file__)))
SEEDED = os.path.join(VERIF, "seeded")


def seeds_for(pid):
    out = []
    if not os.path.isdir(SEEDED):
        return out
    for name in sorted(os.listdir(SEEDED)):
        d = os.path.join(SEEDED, name)
        mp = os.path.join(d, "meta.json")
        if not os.path.exists(mp) or not os.path.exists(os.path.join(d, "patch.diff")):
            continue
        meta = json.load(open(mp))
        if meta.get("not_detected_reason") and pid not in meta.get("detected_by_checks", []):
            continue        # a seed the static rules do not decide (reason recorded in its meta.json and in DESIGN.md)
        if pid in meta.get("detected_by_checks", []) or meta.get("property") == pid:
            out.append((name, d, meta))
    return out


def run_selftest(pid, repo="/repo", limit=None):
    res = []
    seeds = seeds_for(pid)
    if limit:
        seeds = seeds[:limit]
    for name, d, meta in seeds:
        tmp = tempfile.mkdtemp(prefix="verif-seed-")
        try:
            dst = os.path.join(tmp, "repo")
            shutil.copytree(repo, dst, ignore=shutil.ignore_patterns("target", ".git"))
            r = subprocess.run(["patch", "-p1", "-s", "-i", os.path.join(d, "patch.diff")], cwd=dst, capture_output=True, text=True)
            if r.returncode != 0:
                res.append({"seed": name, "status": "patch-failed", "detail": (r.stdout + r.stderr)[-300:]})
                continue
            env = dict(os.environ)
            env["VERIF_REPO"] = dst
            env["VERIF_SELFTEST_CHILD"] = "1"
            env["VERIF_EVIDENCE_DIR"] = os.path.join(tmp, "evidence")
            env["VERIF_REPLAY_DIR"] = os.path.join(tmp, "replay")
            p = subprocess.run([sys.executable, "-m", "analysis.main", pid, "--tier", "quick"], cwd=VERIF, env=env, capture_output=True, text=True)
            viol = [l for l in p.stdout.splitlines() if l.startswith("  rule ")]
            status = "detected" if p.returncode == 1 and viol else ("error" if p.returncode not in (0, 1) else "missed")
            res.append({"seed": name, "status": status, "expected_by_meta": pid in meta.get("detected_by_checks", []),
                        "first_report": viol[0][:300] if viol else None, "exit": p.returncode})
        finally:
            shutil.rmtree(tmp, ignore_errors=True)
    return res
