"""What each check claims (MANIFEST.json is generated from this by tools_gen_manifest.py)."""

TRUST = ("rustc's MIR construction/const-eval on the installed nightly; deku 0.18.1, core/alloc/std, libm behaving as "
         "summarised from their sources; reference tables in analysis/ref transcribed from Annex 10 / DO-260B")

ENGINES = [
    {"name": "facts", "path": "driver/", "serves_properties": [], "kind_free_text": "rustc_private driver: MIR with resolved callees, ADTs, evaluated consts, post-expansion AST format sites, per crate and feature configuration"},
    {"name": "ai", "path": "analysis/ai/", "serves_properties": [], "kind_free_text": "path-sensitive abstract interpreter over MIR (interval/small-set, GF(2)-affine bit provenance over frame-bit atoms, affine-over-bitvector, reader-position model, memoised function summaries)"},
    {"name": "graph", "path": "analysis/cfg.py", "serves_properties": [], "kind_free_text": "CFG dominance / must-pass-through / call-graph / field-writer / taint rules over MIR"},
    {"name": "tmpl", "path": "analysis/rules/", "serves_properties": [], "kind_free_text": "format-site (template) rules over AST FormatArgs facts"},
]

NOTES = ("Technique family: static analysis only. Every check re-extracts facts from /repo's working tree (cached by "
         "source hash) and decides rules on MIR/AST/const facts; no repository code is executed. See DESIGN.md.")

CLAIMS = {
    "C03": {
        "engine": "ai",
        "technique": "const-evaluated table comparison + GF(2) bit-provenance abstract interpretation of the checksum loop",
        "design_ref": "DESIGN.md §4 C03",
        "text": "Decides structurally that the checksum routine is the table-driven Mode S parity computation: the evaluated 256-entry table equals the generator's remainder table (R1). Further rules (one-byte step matrix, loop/tail shape, checksum window) are added as the interpreter grows; the error-detection clause is a mathematical consequence of the generator and is not machine-checked.",
        "note": TRUST,
    },
}
for e in ENGINES:
    e["serves_properties"] = sorted(p for p, c in CLAIMS.items() if c.get("engine") == e["name"] or e["name"] == "facts")
