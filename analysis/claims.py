"""What each check claims (MANIFEST.json is generated from this by tools_gen_manifest.py)."""

TRUST = ("rustc's MIR construction/const-eval on the installed nightly; deku 0.18.1, core/alloc/std, libm behaving as "
         "summarised from their sources; reference tables in analysis/ref transcribed from Annex 10 / DO-260B")

ENGINES = [
    {"name": "facts", "path": "driver/", "serves_properties": [], "kind_free_text": "rustc_private driver: MIR with resolved callees, ADTs, evaluated consts, post-expansion AST format sites, per crate and feature configuration"},
    {"name": "ai", "path": "analysis/ai/", "serves_properties": [], "kind_free_text": "path-sensitive abstract interpreter over MIR (interval/small-set, GF(2)-affine bit provenance over frame-bit atoms, affine-over-bitvector, reader-position model, memoised function summaries)"},
    {"name": "graph", "path": "analysis/cfg.py", "serves_properties": [], "kind_free_text": "CFG dominance / must-pass-through / call-graph / field-writer / taint rules over MIR"},
    {"name": "tmpl", "path": "analysis/rules/", "serves_properties": [], "kind_free_text": "format-site (template) rules over AST FormatArgs facts"},
]

NOTES = ("Technique family: static analysis only. Every check re-extracts facts from /repo's working tree (cached by "
         "source hash) and decides rules on MIR/AST/const facts; no repository code is executed. See DESIGN.md.")

AI_TECH = "path-sensitive abstract interpretation of MIR (GF(2)-affine bit provenance over frame-bit atoms, intervals/small sets, exact integer-linear forms; deku reader position model)"

CLAIMS = {
    "C02": {
        "engine": "ai",
        "technique": AI_TECH + "; per-buffer-length exploration of every grammar path",
        "design_ref": "DESIGN.md §4 C02",
        "text": "Decides, for every grammar path of Frame::from_bytes on symbolic buffers of several lengths, the acceptance set and variant map of the 5-bit identifier (all 32 ids), that the checksum and every decoded field depend only on the format's 56/112 bits (length selection, trailing bytes inert), that no shorter buffer yields a frame, and that every rejection of a full-length buffer is the DF no-match or a type-31 subtype-0/1 reserved-bit/version gate. Exhaustive over identifier values and grammar paths; payload bits are symbolic.",
        "note": TRUST,
    },
    "C04": {
        "engine": "ai",
        "technique": AI_TECH + "; positional layout comparison against Annex 10 header slices; AST format-site rule for the text form",
        "design_ref": "DESIGN.md §4 C04",
        "text": "Decides for every grammar path which frame bits each decoded field is made of: header fields tile the Annex 10 slices, the announced address is f[8..32), a trailing address/parity field is the last 24 bits (equivalently every payload variant consumes 56 bits), identifier re-reads restart at the identifier's first bit; plus the structural necessary conditions of the text round trip (three {:02x} bytes in order; radix-16 parse keeping big-endian bytes 1..3). Genuine defects found are listed in known_findings.json by exact key. Also decides the name -> code tables of the header enumerations (flight status, capability, downlink request, utility message type, KE, control-field type) by interpreting each enum's own reader.",
        "note": TRUST,
    },
    "C06": {
        "engine": "ai", "technique": AI_TECH + "; exhaustive tabulation of the extracted closed-form summary over the 2^13 / 2^12 code space against the Annex 10 table",
        "design_ref": "DESIGN.md §4 C06",
        "text": "Decides for all 8192 13-bit and all 4096 12-bit altitude codes that the decoded value equals the Annex 10 altitude (25N-1000 with Q; Gillham otherwise; 0/None for all-zero, metric, illegal or unrepresentable codes): the two readers are interpreted abstractly with the code bits as atoms, the resulting piecewise closed form is tabulated and compared with the reference; carriers' slices (f[19..32), f[40..52)) come from the decode model. Exhaustive over the code space; no repository code is executed.",
        "note": TRUST,
    },
    "C07": {
        "engine": "ai", "technique": AI_TECH + "; normal-form comparison of float formulas; exhaustive tables for integer parts",
        "design_ref": "DESIGN.md §4 C07",
        "text": "Decides the type-19 field slices and subtype selection, the airspeed and GNSS-baro transforms on every raw value, and for calculate(): integer components and vertical rate on every raw value/sign (tables), track/speed formulas as normal forms (atan2 argument order, 180/pi, +360 wrap under <0, hypot), None for 'no information' zeros and non-ground-speed subtypes, x4 for the supersonic subtype. Float rounding of track/speed is not decided. Also decides the 0/1 meaning of the direction and sign bits (enum code tables); the naming of the vertical-rate source bit is pinned by the repository's tests and not compared with DO-260B.",
        "note": TRUST,
    },
    "C08": {
        "engine": "ai", "technique": AI_TECH + "; const-evaluated table comparison",
        "design_ref": "DESIGN.md §4 C08",
        "text": "Decides that both identification carriers read the eight 6-bit characters f[40..88) in order, that exactly code 32 is dropped and every kept character depends on its own 6 bits, that the evaluated 64-entry table equals the Annex 10 set, and the type-coding/category fields; that no placeholder rendering the identification carries a precision (which would cut it off); and that no full-length frame of either carrier is rejected. BDS selection by 0x20 is decided under C10.",
        "note": TRUST,
    },
    "C09": {
        "engine": "ai", "technique": AI_TECH + " through both bit-shuffling implementations",
        "design_ref": "DESIGN.md §4 C09",
        "text": "Decides, for DF5, DF21 and type 28, the identity field's slice and the exact result-bit -> frame-bit permutation (hence digits 0-7 and agreement of the three carriers), and the value->variant maps of the two 3-bit enums of type 28. Exhaustive (all bits symbolic). Also decides the name -> code tables of the emergency state and the type-28 subtype.",
        "note": TRUST,
    },
    "C10": {
        "engine": "ai", "technique": AI_TECH + "; positional layout comparison against DO-260B/ICAO 9871 slices; exhaustive tables for scalings",
        "design_ref": "DESIGN.md §4 C10",
        "text": "Decides the ME/OperationStatus/BDS dispatch tables (all identifier values), that every field of the interpreted payloads reads part of exactly one reference slice in order MSB-first, the three scalings on every raw value, and big-endian contexts of multi-byte reads. Field *names* are not compared with the standard (positional comparison); f32 representation error is not decided. Also decides the name -> code tables of surveillance status, CPR format and ADS-B version (3..7 rejected).",
        "note": TRUST,
    },
    "C05": {
        "engine": "ai", "technique": "abstract interpretation of the NL decision chain and of get_position on symbolic reports; polynomial normal forms of the extracted float formulas",
        "design_ref": "DESIGN.md §4 C05",
        "text": "Decides STRUCTURAL NECESSARY CONDITIONS only: the NL table (58 thresholds to 8 decimals, |lat| symmetry, ordering), the evaluated constants, None for equal parity, the latitude and longitude formulas as polynomial normal forms for both orders of the pair (zone of the SECOND report, wraps at 270/180 with >=), and that Some(..) is returned only behind NL equality and the latitude range test. NOT decided: the ~5 m accuracy everywhere on Earth, re-encoding to the report's CPR values, numeric longitude range (f64 arithmetic).",
        "note": TRUST,
    },
    "C12": {
        "engine": "ai", "technique": "abstract interpretation of Airplanes::action on every decoded frame kind against a symbolic map model; whole-crate scans of map-mutating calls and counter writers",
        "design_ref": "DESIGN.md §4 C12",
        "text": "Decides per frame kind and path: keys used on the map = the announced address f[8..32); message count changes by exactly 1 for DF17/DF18 and nothing is touched otherwise; Added::Yes iff the address was vacant; only entry()/retain() mutate the map (retain only in prune). The history-level statement follows by induction over frames (not mechanised).",
        "note": TRUST,
    },
    "C13": {
        "engine": "ai", "technique": "abstract interpretation of the tracker's position update against a tagged symbolic record (get_position stubbed); polynomial normal form of the distance",
        "design_ref": "DESIGN.md §4 C13",
        "text": "Decides: the pairing call gets the new report in the slot of its parity plus the stored other slot; every rejecting path ends with the empty record; rejection/publication are guarded by `haversine(receiver, candidate) > max_range` and `> 100.0` from the previous position; the published distance's normal form is the haversine formula with R = 6371. Numeric accuracy / threshold behaviour of f64 are not decided; the history-level claim follows by induction (not mechanised). Also decides that the 100 km test measures the haversine distance between the previous position and the candidate, and that a candidate passing both tests never ends with the record emptied. The views (C14's rule, filed here as V-R2) hand out each record's own position under its own address, also with several aircraft of which only some have a position.",
        "note": TRUST,
    },
    "C14": {
        "engine": "ai", "technique": "abstract interpretation of Airplanes::action / aircraft_details / all_position against tagged symbolic records; enumeration of record shapes for the views",
        "design_ref": "DESIGN.md §4 C14",
        "text": "Decides per frame kind which of callsign/heading/speed/vertical rate are overwritten and with which of the frame's own values (others untouched); that position and distance are written together; that the element appended to the track is the old record; and, over all 24 Some/None shapes of a record, that aircraft_details is Some exactly for position+altitude+distance and copies the record's own values, and all_position lists exactly the records with a position (one arbitrary record, and fully known maps of 2 and 4 records in every with/without-position order). History-level ordering follows by induction (not mechanised). The record may keep its previous velocity only on paths where calculate() returned None (traced returns).",
        "note": TRUST,
    },
    "C15": {
        "engine": "ai", "technique": "abstract interpretation of prune's retain closure (decision table + comparison operands) and of the last_time refresh in action",
        "design_ref": "DESIGN.md §4 C15",
        "text": "Decides ONLY the structural skeleton of expiry: the retain decision table over {clock error, elapsed < T, elapsed >= T}, the operands (last_time.elapsed() vs Duration::from_secs(filter_time), operator <), and that every DF17/DF18 frame sets last_time = SystemTime::now() on all paths. Everything involving real elapsed time is NOT decided. Also decides that every DF17/DF18 frame touches its record (no path through action() skips the refresh).",
        "note": TRUST,
    },
    "C19": {
        "engine": "ai", "technique": "typestate table of the caching reader wrapper from abstract interpretation of its Read/Seek impls; abstract decoding over scripted read schedules; static inventory",
        "design_ref": "DESIGN.md §4 C19",
        "text": "Decides the wrapper's transitions (cache and re-read flag) on success and on Err for both flag states, that all identifier re-reads are single-byte, that under scripted schedules (one byte per read; Interrupted before every read) every grammar path yields the same checksum forms and field provenance as slice decoding, and that the decoder has no global mutable state. Equality for ALL schedules follows from these by argument, not enumeration.",
        "note": TRUST,
    },
    "C20": {
        "engine": "ai", "technique": "cross-configuration comparison of independently computed abstract models (decode model, tracker outcomes), taint of std-only time into branches, call-graph and impl/attribute inventories",
        "design_ref": "DESIGN.md §4 C20",
        "text": "Decides: all three feature configurations build; the decode model (grammar paths, bit provenance, value and checksum forms) is identical for std and alloc-only (and serde in the thorough tier); abstract Airplanes::action outcomes per frame kind agree modulo cfg-only fields; no branch outside prune is decided by a std-only timestamp; float math goes through libm/core; every type reachable from Frame/Airplanes implements Serialize and Deserialize with no asymmetric attribute. NOT decided: dependency behaviour across features, a concrete format's float round trip.",
        "note": TRUST,
    },
    "C11": {
        "engine": "tmpl", "technique": "abstract interpretation of <Frame as Display>::fmt on every decoded frame kind, linked to AST format sites; bit-provenance matching of printed values against decoded fields",
        "design_ref": "DESIGN.md §4 C11",
        "text": "Decides: the value printed after a label of a known class is the frame's own decoded field with exactly that bit provenance; the address source per format (checksum vs announced); presence of optional lines vs their condition bits (heading-valid, ACAS, HRD, L/W, vertical rate > 0, altitude > 0, velocity available, the operational-mode and target-state mode words against their own decoded flags); a position report's decoded altitude is printed on every rendering path; no truncating format spec on a decoded value; placeholders are matched to run-time arguments in the compiler's (argument, trait) order; enum variant -> word maps; non-empty report for every supported frame kind on every path. Byte-exact output / float formatting are NOT decided; label wording around the keyword is free.",
        "note": TRUST,
    },
    "C16": {
        "engine": "graph", "technique": "CFG must-pass-through / must-avoid rules and panic-site inventory on the MIR of both client mains",
        "design_ref": "DESIGN.md §4 C16",
        "text": "Decides ONLY a structural skeleton (the statement quantifies over TCP segmentations and delays, which static analysis cannot reach): every path from a complete line to the next read_line empties the buffer; no path from a failed/timed-out read_line empties it; no panic site lies between read_line and the decode call (except allow-listed ones with a reason); Ok(0) flags the disconnect (a read error does not) and the tracker is created once outside the loop; the reconnect helper, interpreted path by path from the state main calls it in after a disconnect, gives up (Ok(None)) only on paths that recorded an operator quit.",
        "note": TRUST,
    },
    "C17": {
        "engine": "graph", "technique": "CFG must-pass-through for terminal teardown; call-graph reachability; allow-listed panic-site inventory of the UI code",
        "design_ref": "DESIGN.md §4 C17",
        "text": "Decides ONLY a structural skeleton: every Ok(()) exit of radar::main after raw-mode setup passes disable_raw_mode, DisableMouseCapture and show_cursor; every panic site reachable from the key/mouse handlers, draw functions and statistics update is allow-listed with a reason or discharged by a dominating comparison of the same value (a >= c for a - c, d >= 1 for / and %, i < v.len() for i + 1 and v[i], widened operands for signed sums); the quit reason is cleared only once a new connection exists and the reconnect helper leaves a reason set on every Ok(None) path; CLI value parsers have no panic site; the UI cannot reach tracker mutators. NOT decided: all event sequences x terminal sizes, crossterm/ratatui internals, emitted escape codes.",
        "note": TRUST,
    },
    "C18": {
        "engine": "ai", "technique": "abstract interpretation of build_tab_airplanes / Stats::update / Settings::to_xy on named symbolic records; polynomial normal forms of the projection; field-writer sets",
        "design_ref": "DESIGN.md §4 C18",
        "text": "Decides ONLY a structural skeleton: the ten cells of a table row are the record's own values column by column (blanks only without a position); total_airplanes grows by exactly 1 per added aircraft and most_airplanes takes the tracked count under `most < count`; x = k*scale*(lon - centre lon), y = k*scale*(g(lat) - g(centre lat)) with k > 0 (east right, north up, centre at the origin); zoom/pan/reset write only view fields. NOT decided: what ratatui draws. Also decides that reset restores the default view (R5, interpreted) and that the receiver position is written only by Settings::new and the GPS update (R6, writer / mutable-borrow inventory).",
        "note": TRUST,
    },
    "C01": {
        "engine": "ai", "technique": "static panic-site inventory + discharge of every site by path-sensitive abstract interpretation (intervals, bit provenance, exact linear forms) under decode-established field invariants; call-graph acyclicity and iterator-driven loops; allocation-size provenance",
        "design_ref": "DESIGN.md §4 C01",
        "text": "Decides: every panic site (overflow/bounds asserts, unwrap/expect, slice/str indexing, explicit panics) in library functions reachable from from_bytes/from_reader, Display, calculate, get_position, Airplanes::action and the views is visited by an abstract run and proved safe on every visit, or allow-listed with a reason (3 entries); the reachable call graph is acyclic, every loop is iterator-driven or was iterated and left on every path of the exhaustive exploration, and no path re-enters a block in an identical complete state without a fork in between (non-progress = hang); allocation sizes seen during abstract decoding are small constants. Buffer lengths are explored as a finite set (longer buffers are equivalent because trailing bytes are never read). NOT decided: panics inside dependencies, OOM, stack depth.",
        "note": TRUST,
    },
    "C03": {
        "engine": "ai",
        "technique": "const-evaluated table comparison + GF(2) bit-provenance abstract interpretation of the checksum loop",
        "design_ref": "DESIGN.md §4 C03",
        "text": "Decides that Frame.crc is the Mode S syndrome: the evaluated 256-entry table equals the generator's remainder table, and the abstract interpreter derives the checksum on every grammar path as 24 XOR-forms over the frame bits which must equal M(x) mod 0x1FFF409 of the first 56/112 bits (covers byte step, masks, loop bounds, tail XOR, checksum window across id re-reads, length selection). The <=5-bit / <=24-burst detection clause is a mathematical consequence of the generator and is not machine-checked. Also decides the same checksum comparison through Frame::from_reader over a scripted one-byte-per-read source (the checksum window is the bytes consumed, not how they were segmented).",
        "note": TRUST,
    },
}
for e in ENGINES:
    e["serves_properties"] = sorted(p for p, c in CLAIMS.items() if c.get("engine") == e["name"] or e["name"] == "facts")
