"""What each check claims (MANIFEST.json is generated from this by tools_gen_manifest.py)."""

TRUST = ("rustc's MIR construction/const-eval on the installed nightly; deku 0.18.1, core/alloc/std, libm behaving as "
         "summarised from their sources; reference tables in analysis/ref transcribed from Annex 10 / DO-260B")

ENGINES = [
    {"name": "facts", "path": "driver/", "serves_properties": [], "kind_free_text": "rustc_private driver: MIR with resolved callees, ADTs, evaluated consts, post-expansion AST format sites, per crate and feature configuration"},
    {"name": "ai", "path": "analysis/ai/", "serves_properties": [], "kind_free_text": "path-sensitive abstract interpreter over MIR (interval/small-set, GF(2)-affine bit provenance over frame-bit atoms, affine-over-bitvector, reader-position model, memoised function summaries)"},
    {"name": "graph", "path": "analysis/cfg.py", "serves_properties": [], "kind_free_text": "CFG dominance / must-pass-through / call-graph / field-writer / taint rules over MIR"},
    {"name": "tmpl", "path": "analysis/rules/", "serves_properties": [], "kind_free_text": "format-site (template) rules over AST FormatArgs facts"},
]

NOTES = ("Technique family: static analysis only. Every check re-extracts facts from /repo's working tree (cached by "
         "source hash) and decides rules on MIR/AST/const facts; no repository code is executed. See DESIGN.md.")

AI_TECH = "path-sensitive abstract interpretation of MIR (GF(2)-affine bit provenance over frame-bit atoms, intervals/small sets, exact integer-linear forms; deku reader position model)"

CLAIMS = {
    "C02": {
        "engine": "ai",
        "technique": AI_TECH + "; per-buffer-length exploration of every grammar path",
        "design_ref": "DESIGN.md §4 C02",
        "text": "Decides, for every grammar path of Frame::from_bytes on symbolic buffers of several lengths, the acceptance set and variant map of the 5-bit identifier (all 32 ids), that the checksum and every decoded field depend only on the format's 56/112 bits (length selection, trailing bytes inert), that no shorter buffer yields a frame, and that every rejection of a full-length buffer is the DF no-match or a type-31 subtype-0/1 reserved-bit/version gate. Exhaustive over identifier values and grammar paths; payload bits are symbolic.",
        "note": TRUST,
    },
    "C04": {
        "engine": "ai",
        "technique": AI_TECH + "; positional layout comparison against Annex 10 header slices; AST format-site rule for the text form",
        "design_ref": "DESIGN.md §4 C04",
        "text": "Decides for every grammar path which frame bits each decoded field is made of: header fields tile the Annex 10 slices, the announced address is f[8..32), a trailing address/parity field is the last 24 bits (equivalently every payload variant consumes 56 bits), identifier re-reads restart at the identifier's first bit; plus the structural necessary conditions of the text round trip (three {:02x} bytes in order; radix-16 parse keeping big-endian bytes 1..3). Genuine defects found are listed in known_findings.json by exact key.",
        "note": TRUST,
    },
    "C03": {
        "engine": "ai",
        "technique": "const-evaluated table comparison + GF(2) bit-provenance abstract interpretation of the checksum loop",
        "design_ref": "DESIGN.md §4 C03",
        "text": "Decides that Frame.crc is the Mode S syndrome: the evaluated 256-entry table equals the generator's remainder table, and the abstract interpreter derives the checksum on every grammar path as 24 XOR-forms over the frame bits which must equal M(x) mod 0x1FFF409 of the first 56/112 bits (covers byte step, masks, loop bounds, tail XOR, checksum window across id re-reads, length selection). The <=5-bit / <=24-burst detection clause is a mathematical consequence of the generator and is not machine-checked.",
        "note": TRUST,
    },
}
for e in ENGINES:
    e["serves_properties"] = sorted(p for p, c in CLAIMS.items() if c.get("engine") == e["name"] or e["name"] == "facts")
