"""CFG utilities over the extracted MIR (normal edges only unless stated)."""


def term_succs(term, include_unwind=False):
    if term is None:
        return []
    if "goto" in term:
        return [term["goto"]]
    if "switch" in term:
        s = term["switch"]
        out = [b for _v, b in s["targets"]] + [s["otherwise"]]
        seen = []
        for b in out:
            if b not in seen:
                seen.append(b)
        return seen
    if "call" in term:
        c = term["call"]
        out = [c["target"]] if c["target"] is not None else []
        if include_unwind and c.get("unwind") is not None:
            out.append(c["unwind"])
        return out
    if "assert" in term:
        a = term["assert"]
        out = [a["target"]]
        if include_unwind and a.get("unwind") is not None:
            out.append(a["unwind"])
        return out
    if "drop" in term:
        d = term["drop"]
        out = [d["target"]]
        if include_unwind and d.get("unwind") is not None:
            out.append(d["unwind"])
        return out
    return []


class CFG:
    def __init__(self, fn):
        self.fn = fn
        blocks = fn["blocks"]
        self.n = len(blocks)
        self.succ = [term_succs(b["term"]) for b in blocks]
        self.pred = [[] for _ in range(self.n)]
        for i, ss in enumerate(self.succ):
            for s in ss:
                self.pred[s].append(i)
        self.exits = [i for i, b in enumerate(blocks) if b["term"] is not None and ("return" in b["term"])]
        self._dom = None
        self._pdom = None
        self._reach = None

    def reachable(self, start=0, avoid=()):
        seen = set()
        st = [start]
        avoid = set(avoid)
        while st:
            b = st.pop()
            if b in seen or b in avoid:
                continue
            seen.add(b)
            st.extend(self.succ[b])
        return seen

    @staticmethod
    def _idoms(n, succ, pred, roots):
        # iterative dominator computation (Cooper-Harvey-Kennedy) with a virtual root
        order = []
        seen = set()

        def dfs(r):
            stack = [(r, iter(succ[r]))]
            seen.add(r)
            while stack:
                b, it = stack[-1]
                adv = False
                for s in it:
                    if s not in seen:
                        seen.add(s)
                        stack.append((s, iter(succ[s])))
                        adv = True
                        break
                if not adv:
                    order.append(b)
                    stack.pop()
        for r in roots:
            if r not in seen:
                dfs(r)
        rpo = list(reversed(order))
        idx = {b: i for i, b in enumerate(rpo)}
        ROOT = -1
        idom = {r: ROOT for r in roots}
        changed = True

        def inter(a, b):
            while a != b:
                while a != ROOT and (b == ROOT or idx[a] > idx[b]):
                    a = idom[a]
                while b != ROOT and (a == ROOT or idx[b] > idx[a]):
                    b = idom[b]
            return a
        while changed:
            changed = False
            for b in rpo:
                if b in roots:
                    continue
                ps = [p for p in pred[b] if p in idom]
                if not ps:
                    continue
                new = ps[0]
                for p in ps[1:]:
                    new = inter(new, p)
                if idom.get(b) != new:
                    idom[b] = new
                    changed = True
        return idom

    def idom(self):
        if self._dom is None:
            self._dom = self._idoms(self.n, self.succ, self.pred, [0])
        return self._dom

    def ipdom(self):
        """immediate post-dominators w.r.t. normal exits (return blocks); -1 = virtual exit"""
        if self._pdom is None:
            roots = list(self.exits)
            # blocks without successors that are not returns (unreachable/diverging) are also roots
            for i in range(self.n):
                if not self.succ[i] and i not in roots and not self.fn["blocks"][i]["cleanup"]:
                    roots.append(i)
            self._pdom = self._idoms(self.n, self.pred, self.succ, roots)
        return self._pdom

    def dominates(self, a, b):
        idom = self.idom()
        while b is not None and b != -1:
            if a == b:
                return True
            b = idom.get(b)
        return False

    def back_edges(self):
        out = []
        for b in range(self.n):
            for s in self.succ[b]:
                if self.dominates(s, b) and b in self.reachable():
                    out.append((b, s))
        return out

    def natural_loop(self, tail, head):
        body = {head}
        st = [tail]
        while st:
            b = st.pop()
            if b in body:
                continue
            body.add(b)
            st.extend(self.pred[b])
        return body

    def all_paths_pass(self, start, targets, through):
        """True iff every path from `start` to any block in `targets` passes a block in `through`
        (start itself counts if in through). Returns (ok, witness_path)"""
        through = set(through)
        targets = set(targets)
        if start in through:
            return True, None
        prev = {start: None}
        st = [start]
        while st:
            b = st.pop()
            if b in targets:
                path = []
                x = b
                while x is not None:
                    path.append(x)
                    x = prev[x]
                return False, list(reversed(path))
            for s in self.succ[b]:
                if s in through or s in prev:
                    continue
                prev[s] = b
                st.append(s)
        return True, None


_CFG_CACHE = {}


def cfg_of(fn):
    k = id(fn)
    c = _CFG_CACHE.get(k)
    if c is None:
        c = CFG(fn)
        _CFG_CACHE[k] = c
    return c


# ------------------------------------------------------------------------------------------- liveness of MIR locals
def _locals_in(x, out):
    if isinstance(x, dict):
        if "local" in x and isinstance(x["local"], int):
            out.add(x["local"])
        for v in x.values():
            _locals_in(v, out)
    elif isinstance(x, list):
        for v in x:
            _locals_in(v, out)


_LIVE_CACHE = {}


def live_in(fn):
    """block -> set of locals that may be read before being overwritten from the entry of that block (conservative: any mention
    of a local other than as the whole destination of an assignment / call counts as a use)"""
    key = id(fn)
    if key in _LIVE_CACHE:
        return _LIVE_CACHE[key]
    cfg = cfg_of(fn)
    n = len(fn["blocks"])
    use = [set() for _ in range(n)]
    dfn = [set() for _ in range(n)]
    for i, b in enumerate(fn["blocks"]):
        u, d = use[i], dfn[i]
        for s in b["stmts"]:
            if "assign" in s:
                pl, rv = s["assign"]
                r = set()
                _locals_in(rv, r)
                if pl["proj"]:
                    _locals_in(pl, r)
                u |= (r - d)
                if not pl["proj"]:
                    d.add(pl["local"])
            else:
                r = set()
                _locals_in(s, r)
                u |= (r - d)
        t = b["term"]
        if t:
            r = set()
            if "call" in t:
                c = t["call"]
                _locals_in(c.get("args"), r)
                _locals_in(c.get("callee"), r)
                if c["dest"]["proj"]:
                    _locals_in(c["dest"], r)
                u |= (r - d)
                if not c["dest"]["proj"]:
                    d.add(c["dest"]["local"])
            else:
                _locals_in(t, r)
                if "return" in t:
                    r.add(0)
                u |= (r - d)
    # a local whose address is taken anywhere can be read through the reference without being mentioned: always live
    borrowed = set()
    for b in fn["blocks"]:
        for s in b["stmts"]:
            if "assign" in s and isinstance(s["assign"][1], dict):
                rv = s["assign"][1]
                for k in ("ref", "addr_of"):
                    if k in rv:
                        borrowed.add(rv[k]["place"]["local"])
    for i in range(n):
        use[i] |= borrowed
    live = [set() for _ in range(n)]
    changed = True
    while changed:
        changed = False
        for i in range(n - 1, -1, -1):
            out = set()
            for sc in cfg.succ[i]:
                out |= live[sc]
            new = use[i] | (out - dfn[i])
            if new != live[i]:
                live[i] = new
                changed = True
    _LIVE_CACHE[key] = live
    return live
