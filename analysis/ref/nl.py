"""CPR NL(lat): transition latitudes (1090-WP-9-14 / DO-260B A.1.7.2d)."""
import math

NZ = 15


def thresholds():
    """[(NL, lat_upper_bound)] for NL = 59..2: NL(lat) = n for lat < bound_n (and >= bound_{n+1})"""
    out = []
    for nl in range(59, 1, -1):
        a = 1 - math.cos(math.pi / (2 * NZ))
        b = 1 - math.cos(2 * math.pi / nl)
        lat = 180 / math.pi * math.acos(math.sqrt(a / b))
        out.append((nl, lat))
    return out
