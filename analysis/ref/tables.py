"""Small reference tables: Annex 10 6-bit character set, identity-code permutation, Gillham altitude code."""

# Annex 10 Vol IV Table 3-9 (6-bit subset of IA-5): 1-26 -> A-Z, 32 -> space, 48-57 -> 0-9, others unassigned ('#')
def charset():
    t = ["#"] * 64
    for i in range(1, 27):
        t[i] = chr(ord("A") + i - 1)
    t[32] = " "
    for i in range(48, 58):
        t[i] = chr(ord("0") + i - 48)
    return t


# 13-bit identity/altitude field, MSB first: C1 A1 C2 A2 C4 A4 X B1 D1 B2 D2 B4 D4
ID13_ORDER = ["C1", "A1", "C2", "A2", "C4", "A4", "X", "B1", "D1", "B2", "D2", "B4", "D4"]


def identity_digits(code):
    """13-bit code -> (A, B, C, D) octal digits"""
    bit = {}
    for i, n in enumerate(ID13_ORDER):
        bit[n] = (code >> (12 - i)) & 1
    dig = lambda x: bit[x + "4"] * 4 + bit[x + "2"] * 2 + bit[x + "1"]
    return dig("A"), dig("B"), dig("C"), dig("D")


def identity_hex(code):
    a, b, c, d = identity_digits(code)
    return (a << 12) | (b << 8) | (c << 4) | d


def gray_to_bin(bits):
    """bits MSB first"""
    out = []
    acc = 0
    for b in bits:
        acc ^= b
        out.append(acc)
    v = 0
    for b in out:
        v = (v << 1) | b
    return v


def gillham_altitude_ft(code13):
    """Annex 10 Vol IV 3.1.2.6.5.4 / DO-181: Gillham (Gray) coded altitude of a 13-bit code with M=0, Q=0.
    Returns altitude in feet or None for illegal patterns. 500 ft ring: D2 D4 A1 A2 A4 B1 B2 B4 (Gray);
    100 ft ring: C1 C2 C4 (Gray, values 1..5 after 7->5 folding, reflected on odd 500-ft rings); offset -1300 ft."""
    bit = {}
    for i, n in enumerate(ID13_ORDER):
        bit[n] = (code13 >> (12 - i)) & 1
    if bit["D1"]:
        return None
    c = gray_to_bin([bit["C1"], bit["C2"], bit["C4"]])
    if c == 0 or c == 5 or c == 6:
        return None
    if c == 7:
        c = 5
    f = gray_to_bin([bit["D2"], bit["D4"], bit["A1"], bit["A2"], bit["A4"], bit["B1"], bit["B2"], bit["B4"]])
    if f & 1:
        c = 6 - c
    n = f * 5 + c
    if n < 13:
        return None
    return (n - 13) * 100


def ac13_altitude(code):
    """expected decoded value (u16 feet, 0 = no altitude) for a 13-bit AC code"""
    if code == 0 or code == 0x1FFF:
        return 0
    if code & 0x0040:   # M bit: metric
        return 0
    if code & 0x0010:   # Q bit
        n = ((code & 0x1F80) >> 2) | ((code & 0x0020) >> 1) | (code & 0x000F)
        v = 25 * n - 1000
        return v if 0 < v <= 0xFFFF else 0
    a = gillham_altitude_ft(code)
    if a is None or a <= 0 or a > 0xFFFF:
        return 0
    return a


def ac12_altitude(code):
    """expected Option<u16> (None = no altitude) for the 12-bit AC code of airborne position reports"""
    if code & 0x010:    # Q bit
        n = ((code & 0xFE0) >> 1) | (code & 0x00F)
        v = 25 * n - 1000
        return v if 0 < v <= 0xFFFF else None
    code13 = ((code & 0xFC0) << 1) | (code & 0x03F)
    if code13 == 0:
        return None
    a = gillham_altitude_ft(code13)
    if a is None or a <= 0 or a > 0xFFFF:
        return None
    return a
