"""Reference code tables of the decoder's enumerations: variant name -> the field values (MSB-first over the enum's own bits)
that select it, per ICAO Annex 10 Vol. IV / Doc 9871 / DO-260B. A variant name encodes the meaning the standard assigns to the code
(e.g. flight status 4 = alert + SPI), so a table swap changes what a user reads off the decoded value even though the numeric
value of the variant still equals the frame bits."""

TABLES = {
    # Annex 10 Vol. IV 3.1.2.6.5.1 (FS)
    "adsb_deku::FlightStatus": (3, {"NoAlertNoSPIAirborne": {0}, "NoAlertNoSPIOnGround": {1}, "AlertNoSPIAirborne": {2}, "AlertNoSPIOnGround": {3},
                                    "AlertSPIAirborneGround": {4}, "NoAlertSPIAirborneGround": {5}, "Reserved": {6}, "NotAssigned": {7}}),
    # 3.1.2.5.2.2.1 (CA)
    "adsb_deku::Capability": (3, {"AG_UNCERTAIN": {0}, "Reserved": {1, 2, 3}, "AG_GROUND": {4}, "AG_AIRBORNE": {5}, "AG_UNCERTAIN2": {6}, "AG_UNCERTAIN3": {7}}),
    # 3.1.2.6.5.2 (DR)
    "adsb_deku::DownlinkRequest": (5, {"None": {0}, "RequestSendCommB": {1}, "CommBBroadcastMsg1": {4}, "CommBBroadcastMsg2": {5},
                                       "Unknown": set(range(32)) - {0, 1, 4, 5}}),
    # 3.1.2.6.5.3 (UM: IDS subfield)
    "adsb_deku::UtilityMessageType": (2, {"NoInformation": {0}, "CommB": {1}, "CommC": {2}, "CommD": {3}}),
    # 3.1.2.7.3.1 (KE)
    "adsb_deku::KE": (1, {"DownlinkELMTx": {0}, "UplinkELMAck": {1}}),
    # DF18 control field, DO-260B 2.2.3.2.1.3
    "adsb_deku::adsb::ControlFieldType": (3, {"ADSB_ES_NT": {0}, "ADSB_ES_NT_ALT": {1}, "TISB_FINE": {2}, "TISB_COARSE": {3}, "TISB_MANAGE": {4},
                                              "TISB_ADSB_RELAY": {5}, "TISB_ADSB": {6}, "Reserved": {7}}),
    # airborne position: surveillance status, CPR format
    "adsb_deku::SurveillanceStatus": (2, {"NoCondition": {0}, "PermanentAlert": {1}, "TemporaryAlert": {2}, "SPICondition": {3}}),
    "adsb_deku::CPRFormat": (1, {"Even": {0}, "Odd": {1}}),
    "adsb_deku::Sign": (1, {"Positive": {0}, "Negative": {1}}),
    # operational status: version number (3..7 reserved -> rejected)
    "adsb_deku::adsb::ADSBVersion": (3, {"DOC9871AppendixA": {0}, "DOC9871AppendixB": {1}, "DOC9871AppendixC": {2}, "<rejected>": {3, 4, 5, 6, 7}}),
    # type 28 subtype 1: emergency / priority status
    "adsb_deku::adsb::EmergencyState": (3, {"None": {0}, "General": {1}, "Lifeguard": {2}, "MinimumFuel": {3}, "NoCommunication": {4},
                                            "UnlawfulInterference": {5}, "DownedAircraft": {6}, "Reserved2": {7}}),
    "adsb_deku::adsb::AircraftStatusType": (3, {"NoInformation": {0}, "EmergencyPriorityStatus": {1}, "ACASRaBroadcast": {2}, "Reserved": {3, 4, 5, 6, 7}}),
    "adsb_deku::adsb::DirectionEW": (1, {"WestToEast": {0}, "EastToWest": {1}}),
    "adsb_deku::adsb::DirectionNS": (1, {"SouthToNorth": {0}, "NorthToSouth": {1}}),
    "adsb_deku::adsb::StatusForGroundTrack": (1, {"Invalid": {0}, "Valid": {1}}),
}
