"""Reference bit layouts (0-based [start, end) frame bit ranges), transcribed from Annex 10 Vol IV / DO-260B /
ICAO 9871 as pinned in DESIGN.md section 3."""

ACCEPTED_DF = {0: "ShortAirAirSurveillance", 4: "SurveillanceAltitudeReply", 5: "SurveillanceIdentityReply", 11: "AllCallReply",
               16: "LongAirAir", 17: "ADSB", 18: "TisB", 19: "ExtendedQuitterMilitaryApplication", 20: "CommBAltitudeReply",
               21: "CommBIdentityReply"}
for _i in range(24, 32):
    ACCEPTED_DF[_i] = "ModeSExtendedSquitter"
REJECTED_DF = sorted(set(range(32)) - set(ACCEPTED_DF))


def frame_bits(df_id):
    return 112 if df_id >= 16 else 56


# header fields before the payload, per DF id: (name, start, end)
HEADER = {
    0: [("VS", 5, 6), ("CC", 6, 7), ("spare", 7, 8), ("SL", 8, 11), ("spare", 11, 13), ("RI", 13, 17), ("spare", 17, 19), ("AC", 19, 32)],
    4: [("FS", 5, 8), ("DR", 8, 13), ("UM", 13, 19), ("AC", 19, 32)],
    5: [("FS", 5, 8), ("DR", 8, 13), ("UM", 13, 19), ("ID", 19, 32)],
    11: [("CA", 5, 8), ("AA", 8, 32)],
    16: [("VS", 5, 6), ("spare", 6, 8), ("SL", 8, 11), ("spare", 11, 13), ("RI", 13, 17), ("spare", 17, 19), ("AC", 19, 32), ("MV", 32, 88)],
    17: [("CA", 5, 8), ("AA", 8, 32)],
    18: [("CF", 5, 8), ("AA", 8, 32)],
    19: [("AF", 5, 8)],
    20: [("FS", 5, 8), ("DR", 8, 13), ("UM", 13, 19), ("AC", 19, 32)],
    21: [("FS", 5, 8), ("DR", 8, 13), ("UM", 13, 19), ("ID", 19, 32)],
}
for _i in range(24, 32):
    HEADER[_i] = [("CA", 5, 8), ("AA", 8, 32), ("type", 32, 37), ("data", 37, 88)]

# formats that announce the address in bits 9-32
ANNOUNCED = {11, 17, 18} | set(range(24, 32))

# identity-mapped integer header fields (value == the slice MSB first); AC/ID have documented transforms
IDENTITY_FIELDS = {"VS", "CC", "SL", "RI", "AF", "type", "spare"}

# ME type code -> variant (documented table of the crate, ICAO 9871 A.2.3.1)
ME_TYPES = {0: "NoPosition", 19: "AirborneVelocity", 23: "Reserved0", 24: "SurfaceSystemStatus", 28: "AircraftStatus",
            29: "TargetStateAndStatusInformation", 30: "AircraftOperationalCoordination", 31: "AircraftOperationStatus"}
for _i in range(1, 5):
    ME_TYPES[_i] = "AircraftIdentification"
for _i in range(5, 9):
    ME_TYPES[_i] = "SurfacePosition"
for _i in range(9, 19):
    ME_TYPES[_i] = "AirbornePositionBaroAltitude"
for _i in range(20, 23):
    ME_TYPES[_i] = "AirbornePositionGNSSAltitude"
for _i in range(25, 28):
    ME_TYPES[_i] = "Reserved1"

# interpreted ME payloads: ME bit numbers are 1-based in the standards; here 0-based frame bits (ME bit k -> 31 + k)
def _me(first, last):
    return (31 + first, 31 + last + 1)


ME_LAYOUT = {
    "AirbornePosition": [("TC", _me(1, 5)), ("SS", _me(6, 7)), ("SAF/IMF", _me(8, 8)), ("AC12", _me(9, 20)), ("T", _me(21, 21)),
                         ("F", _me(22, 22)), ("LAT", _me(23, 39)), ("LON", _me(40, 56))],
    "SurfacePosition": [("TC", _me(1, 5)), ("MOV", _me(6, 12)), ("S", _me(13, 13)), ("TRK", _me(14, 20)), ("T", _me(21, 21)),
                        ("F", _me(22, 22)), ("LAT", _me(23, 39)), ("LON", _me(40, 56))],
    "AircraftIdentification": [("TC", _me(1, 5)), ("CA", _me(6, 8))] + [("C%d" % (k + 1), _me(9 + 6 * k, 14 + 6 * k)) for k in range(8)],
    "AircraftStatus": [("TC", _me(1, 5)), ("ST", _me(6, 8)), ("EM", _me(9, 11)), ("ID13", _me(12, 24)), ("reserved", _me(25, 56))],
    "AirborneVelocity": [("TC", _me(1, 5)), ("ST", _me(6, 8)), ("IC/IFR/NACv", _me(9, 13)), ("sub", _me(14, 35)), ("VrSrc", _me(36, 36)),
                         ("SVr", _me(37, 37)), ("VR", _me(38, 46)), ("reserved", _me(47, 48)), ("SDif", _me(49, 49)), ("dAlt", _me(50, 56))],
    "AirborneVelocity.ground": [("Dew", _me(14, 14)), ("Vew", _me(15, 24)), ("Dns", _me(25, 25)), ("Vns", _me(26, 35))],
    "AirborneVelocity.air": [("HS", _me(14, 14)), ("HDG", _me(15, 24)), ("AT", _me(25, 25)), ("AS", _me(26, 35))],
    "TargetState": [("TC", _me(1, 5)), ("ST", _me(6, 7)), ("SILs", _me(8, 8)), ("alt-type", _me(9, 9)), ("ALT", _me(10, 20)),
                    ("QNH", _me(21, 29)), ("HDG-status", _me(30, 30)), ("HDG", _me(31, 39)), ("NACp", _me(40, 43)), ("NICb", _me(44, 44)),
                    ("SIL", _me(45, 46)), ("mode-status", _me(47, 47)), ("AP", _me(48, 48)), ("VNAV", _me(49, 49)), ("ALT-HOLD", _me(50, 50)),
                    ("IMF", _me(51, 51)), ("APP", _me(52, 52)), ("TCAS", _me(53, 53)), ("LNAV", _me(54, 54)), ("reserved", _me(55, 56))],
    "OpStatusAirborne": [("TC", _me(1, 5)), ("ST", _me(6, 8)), ("CC-00", _me(9, 10)), ("ACAS", _me(11, 11)), ("CDTI", _me(12, 12)),
                         ("CC-00b", _me(13, 14)), ("ARV", _me(15, 15)), ("TS", _me(16, 16)), ("TC-cap", _me(17, 18)), ("CC-res", _me(19, 24)),
                         ("OM-00", _me(25, 26)), ("RA", _me(27, 27)), ("IDENT", _me(28, 28)), ("ATC", _me(29, 29)), ("SAF", _me(30, 30)),
                         ("SDA", _me(31, 32)), ("OM-res", _me(33, 40)), ("VER", _me(41, 43)), ("NIC-A", _me(44, 44)), ("NACp", _me(45, 48)),
                         ("GVA", _me(49, 50)), ("SIL", _me(51, 52)), ("NICbaro", _me(53, 53)), ("HRD", _me(54, 54)), ("SILs", _me(55, 55)),
                         ("reserved", _me(56, 56))],
    "OpStatusSurface": [("TC", _me(1, 5)), ("ST", _me(6, 8)), ("CC-00", _me(9, 10)), ("POA", _me(11, 11)), ("1090IN", _me(12, 12)),
                        ("CC-00b", _me(13, 14)), ("B2low", _me(15, 15)), ("UATIN", _me(16, 16)), ("NACv", _me(17, 19)), ("NIC-C", _me(20, 20)),
                        ("L/W", _me(21, 24)), ("OM-00", _me(25, 26)), ("RA", _me(27, 27)), ("IDENT", _me(28, 28)), ("ATC", _me(29, 29)),
                        ("SAF", _me(30, 30)), ("SDA", _me(31, 32)), ("GPS-offset", _me(33, 40)), ("VER", _me(41, 43)), ("NIC-A", _me(44, 44)),
                        ("NACp", _me(45, 48)), ("reserved", _me(49, 50)), ("SIL", _me(51, 52)), ("TRK/HDG", _me(53, 53)), ("HRD", _me(54, 54)),
                        ("SILs", _me(55, 55)), ("reserved2", _me(56, 56))],
    # Comm-B MB field occupies the same frame bits 33-88
    "BDS10": [("code", _me(1, 8)), ("continuation", _me(9, 9)), ("reserved", _me(10, 14)), ("overlay", _me(15, 15)), ("ACAS", _me(16, 16)),
              ("subnet-ver", _me(17, 23)), ("enh-protocol", _me(24, 24)), ("spec-services", _me(25, 25)), ("uplink-ELM", _me(26, 28)),
              ("downlink-ELM", _me(29, 32)), ("ident-cap", _me(33, 33)), ("squitter-cap", _me(34, 34)), ("SIC", _me(35, 35)),
              ("common-GICB", _me(36, 36)), ("ACAS-res", _me(37, 40)), ("bit-array", _me(41, 56))],
    "BDS20": [("code", _me(1, 8))] + [("C%d" % (k + 1), _me(9 + 6 * k, 14 + 6 * k)) for k in range(8)],
}
RESERVED_NAMES = {"reserved", "reserved2", "CC-res", "OM-res", "spare", "CC-00", "CC-00b", "OM-00"}
