"""Mode S parity: generator 0x1FFF409 (x^24 + ... ), byte-wise remainder table."""
GEN = 0x1FFF409  # 25-bit generator polynomial (Annex 10 Vol IV 3.1.2.3.3)


def table_entry(v):
    """(v * x^24) mod G for an 8-bit v."""
    r = v << 24
    for bit in range(31, 23, -1):
        if r & (1 << bit):
            r ^= GEN << (bit - 24)
    return r & 0xFFFFFF


def table():
    return [table_entry(v) for v in range(256)]
