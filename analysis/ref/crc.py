"""Mode S parity: generator 0x1FFF409 (x^24 + ... ), byte-wise remainder table."""
GEN = 0x1FFF409  # 25-bit generator polynomial (Annex 10 Vol IV 3.1.2.3.3)


def table_entry(v):
    """(v * x^24) mod G for an 8-bit v."""
    r = v << 24
    for bit in range(31, 23, -1):
        if r & (1 << bit):
            r ^= GEN << (bit - 24)
    return r & 0xFFFFFF


def table():
    return [table_entry(v) for v in range(256)]


def syndrome_bits(nbits):
    """reference checksum as 24 GF(2)-linear forms over frame bits: result[j] = mask of frame-bit atoms XORed into
    checksum bit j (LSB first). checksum = (M(x) mod G) where M(x) = sum f[i] x^(nbits-1-i)."""
    masks = [0] * 24
    for i in range(nbits):
        # x^(nbits-1-i) mod G
        e = nbits - 1 - i
        r = 1
        for _ in range(e):
            r <<= 1
            if r & (1 << 24):
                r ^= GEN
        for j in range(24):
            if (r >> j) & 1:
                masks[j] |= 1 << i
    return masks
