"""Shared decode model: all paths of Frame::from_bytes on symbolic buffers of a given length, as a tree of
alternatives; helpers to enumerate grammar paths and to flatten decoded values into ordered leaf fields."""
import os
import pickle
import time

from . import facts
from .ai import entry
from .ai.interp import State, Inconclusive
from .ai.pathcond import PathCond, eval_fact, facts_atoms
from .ai.values import (AdtVal, ArrayVal, Choice, FloatVal, IntVal, Opaque, RefVal, Top, TupleVal, deps_of, fact_atoms,
                        mask_atoms)

_MEM = {}
_CH = None


def _code_hash():
    global _CH
    if _CH is None:
        import hashlib
        h = hashlib.sha256()
        base = os.path.dirname(os.path.abspath(__file__))
        for sub in ("ai", "."):
            d = os.path.join(base, sub)
            for f in sorted(os.listdir(d)):
                if f.endswith(".py") and (sub == "ai" or f == "decode.py"):
                    with open(os.path.join(d, f), "rb") as fh:
                        h.update(fh.read())
        _CH = h.hexdigest()[:12]
    return _CH


class DecodeRun:
    def __init__(self, nbytes, alts, events, obligations, unsummarised, steps, wall, visited):
        self.nbytes = nbytes
        self.alts = alts              # list of (facts tuple, value) ; value = Result<Frame, DekuError>
        self.events = events
        self.obligations = obligations
        self.unsummarised = unsummarised
        self.steps = steps
        self.wall = wall
        self.visited = visited


def run_decode(prog, nbytes, use_cache=True):
    key = (prog.tree_hash, prog.config, nbytes)
    if key in _MEM:
        return _MEM[key]
    cdir = os.path.join(facts.CACHE, "facts", prog.tree_hash, prog.config)
    cpath = os.path.join(cdir, "decode-%d-%s.pkl" % (nbytes, _code_hash()))
    if use_cache and os.path.exists(cpath):
        try:
            with open(cpath, "rb") as fh:
                r = pickle.load(fh)
            _MEM[key] = r
            return r
        except Exception:
            pass
    t0 = time.time()
    ip = entry.new_interp(prog, max_seconds=600)
    fn = prog.fns.get("adsb_deku::Frame::from_bytes")
    if fn is None:
        raise Inconclusive("anchor missing: adsb_deku::Frame::from_bytes")
    st = State()
    buf = entry.frame_buffer(st, nbytes)
    outs = ip.run_function(fn, [buf], st)
    alts = []
    events = []
    for o in outs:
        rv = o.retval
        base = tuple(o.pc.log)
        events.extend(e for e in o.events if not any(e is x for x in events))
        if o.status != "returned" and o.status != "run":
            # a path that stopped inside the decoder (panicked / diverged): its `retval` is a leftover of an inner call, not a result
            alts.append((base, Opaque.make("abnormal", status=o.status)))
            continue
        if isinstance(rv, Choice):
            for d, v in rv.alts:
                alts.append((base + tuple(d), v))
        else:
            alts.append((base, rv))
    alts = [_hoist_alt(a) for a in alts]
    r = DecodeRun(nbytes, alts, [_strip_event(e) for e in events], ip.obligations, ip.unsummarised, ip.steps, time.time() - t0,
                  sorted(ip.visited_fns))
    _MEM[key] = r
    if use_cache and os.path.isdir(cdir):
        try:
            with open(cpath + ".tmp%d" % os.getpid(), "wb") as fh:
                pickle.dump(r, fh, protocol=pickle.HIGHEST_PROTOCOL)
            os.replace(cpath + ".tmp%d" % os.getpid(), cpath)
        except Exception:
            pass
    return r


def hoist(v):
    """replace single-alternative choices by their value, returning the facts they carried"""
    if isinstance(v, Choice):
        if len(v.alts) == 1:
            d, x = v.alts[0]
            f2, x2 = hoist(x)
            return tuple(d) + f2, x2
        alts = []
        for d, x in v.alts:
            f2, x2 = hoist(x)
            alts.append((tuple(d) + f2, x2))
        return (), Choice(alts)
    if isinstance(v, AdtVal):
        facts_ = ()
        fs = []
        for f in v.fields:
            ff, x = hoist(f)
            facts_ += ff
            fs.append(x)
        return facts_, AdtVal(v.path, v.variant, fs, v.kind, v.vname)
    if isinstance(v, TupleVal):
        facts_ = ()
        fs = []
        for f in v.fields:
            ff, x = hoist(f)
            facts_ += ff
            fs.append(x)
        return facts_, TupleVal(fs)
    return (), v


def _hoist_alt(a):
    fcts, v = a
    f2, v2 = hoist(v)
    return (tuple(fcts) + f2, v2)


def _strip_event(e):
    e = dict(e)
    sp = e.get("span")
    if isinstance(sp, dict):
        e["span"] = {"file": sp.get("cs_file") or sp.get("file"), "line": (sp.get("cs_lo") or sp.get("lo") or [0])[0],
                     "col": (sp.get("cs_lo") or sp.get("lo") or [0, 0])[1]}
    return e


# --------------------------------------------------------------------------------------------- grammar paths
def is_ok(v):
    return isinstance(v, AdtVal) and v.path == "core::result::Result" and v.variant == 0


def is_err(v):
    return isinstance(v, AdtVal) and v.path == "core::result::Result" and v.variant == 1


def id_values(fcts, atoms):
    """values (MSB-first over `atoms`) consistent with the facts restricted to those atoms; facts mentioning
    other atoms are ignored (treated as satisfiable)"""
    atoms = list(atoms)
    aset = set(atoms)
    rel = [f for f in fcts if f[0] not in ("guard", "or") and fact_atoms(f) and fact_atoms(f) <= aset]
    relg = [f for f in fcts if f[0] == "guard" and f[1].get("deps") and f[1]["deps"] <= aset]
    for f in fcts:
        if f[0] == "or":
            # keep, per disjunct, only the facts over the requested atoms
            conjs = []
            for conj in f[1]:
                conjs.append(tuple(g for g in conj if (g[0] == "or") or (facts_atoms([g]) and facts_atoms([g]) <= aset)))
            rel.append(("or", tuple(conjs)))
    out = []
    n = len(atoms)
    for v in range(1 << n):
        assign = {a: (v >> (n - 1 - i)) & 1 for i, a in enumerate(atoms)}
        ok = True
        for f in rel + relg:
            r = eval_fact(f, assign)
            if r is False:
                ok = False
                break
        if ok:
            out.append(v)
    return out


def field_names(prog, v):
    adt = prog.adts.get(v.path)
    if adt is None or v.variant is None or v.variant >= len(adt["variants"]):
        return [str(i) for i in range(len(v.fields))]
    fs = adt["variants"][v.variant]["fields"]
    return [fs[i]["name"] if i < len(fs) else str(i) for i in range(len(v.fields))]


class Leaf:
    __slots__ = ("path", "value", "atoms", "kind", "cond", "adts")

    def __init__(self, path, value, atoms, kind, cond, adts=()):
        self.path = path
        self.value = value
        self.atoms = atoms
        self.kind = kind
        self.cond = cond
        self.adts = adts

    def name(self):
        return ".".join(self.path)

    def rng(self):
        if not self.atoms:
            return None
        a = sorted(self.atoms)
        return (a[0], a[-1] + 1, len(a) == a[-1] + 1 - a[0])

    def __repr__(self):
        r = self.rng()
        return "%s:%s%s" % (self.name(), self.kind, ("[%d..%d)%s" % (r[0], r[1], "" if r[2] else "!")) if r else "[]")


def choice_atoms(ch):
    s = frozenset()
    for d, x in ch.alts:
        s |= facts_atoms(d)
    return s


STOP_ADTS = ("adsb_deku::ICAO",)


def flatten(prog, v, path=(), cond=(), expand=None):
    out = _flatten(prog, v, path, cond, expand)
    return out


def _with_adt(leaves, adt):
    for l in leaves:
        l.adts = (adt,) + l.adts
    return leaves


def _flatten(prog, v, path=(), cond=(), expand=None):
    """ordered leaves of a decoded value. Choices become one 'enum' leaf unless expand(path, choice) says to
    descend (then every alternative is flattened with its facts appended to cond, and the result is a list of
    (cond, leaves) alternatives spliced as a 'node' leaf with .value = list)."""
    out = []
    if isinstance(v, AdtVal) and v.path in STOP_ADTS:
        out.append(Leaf(path, v, deps_of(v), "adt:" + v.path, cond, (v.path,)))
        return out
    if isinstance(v, AdtVal):
        names = field_names(prog, v)
        vn = v.vname or ""
        adt = prog.adts.get(v.path)
        is_enum = adt is not None and adt["kind"] == "enum"
        sub = path + ((vn,) if is_enum and vn else ())
        if not v.fields:
            out.append(Leaf(sub, v, frozenset(), "unit", cond))
        for n, f in zip(names, v.fields):
            out.extend(_flatten(prog, f, sub + (n,), cond, expand))
        return _with_adt(out, v.path)
    if isinstance(v, TupleVal):
        for i, f in enumerate(v.fields):
            out.extend(_flatten(prog, f, path + (str(i),), cond, expand))
        return out
    if isinstance(v, ArrayVal) and v.elems is not None:
        for i, f in enumerate(v.elems):
            out.extend(_flatten(prog, f, path + ("[%d]" % i,), cond, expand))
        return out
    if isinstance(v, Opaque) and v.kind in ("vec", "string") and v.get("elems") is not None:
        for i, f in enumerate(v.get("elems")):
            out.extend(_flatten(prog, f, path + ("[%d]" % i,), cond, expand))
        if not v.get("elems"):
            out.append(Leaf(path, v, frozenset(), "empty", cond))
        return out
    if isinstance(v, Choice):
        atoms = choice_atoms(v) | deps_of(v)
        adts = ()
        a0 = v.alts[0][1]
        if isinstance(a0, AdtVal):
            adts = (a0.path,)
        out.append(Leaf(path, v, atoms, "choice", cond, adts))
        return out
    if isinstance(v, IntVal):
        atoms = set(v.deps)
        for t in v.tags:
            if isinstance(t, tuple) and t and t[0] == "rd":
                atoms.update(range(t[1], t[2]))
        out.append(Leaf(path, v, frozenset(atoms), "int", cond))
        return out
    if isinstance(v, FloatVal):
        out.append(Leaf(path, v, v.deps, "float", cond))
        return out
    out.append(Leaf(path, v, deps_of(v), type(v).__name__.lower(), cond))
    return out


def expand_paths(prog, v, want):
    """enumerate alternatives of nested choices selected by want(path tuple, choice) -> bool.
    yields (facts, value_with_those_choices_resolved)"""
    def rec(val, path):
        # returns list of (facts, value)
        if isinstance(val, Choice):
            if want(path, val):
                res = []
                for d, x in val.alts:
                    for d2, x2 in rec(x, path):
                        res.append((tuple(d) + d2, x2))
                return res
            return [((), val)]
        if isinstance(val, AdtVal):
            names = field_names(prog, val)
            adt = prog.adts.get(val.path)
            is_enum = adt is not None and adt["kind"] == "enum"
            sub = path + ((val.vname,) if is_enum and val.vname else ())
            combos = [((), [])]
            for n, f in zip(names, val.fields):
                alts = rec(f, sub + (n,))
                combos = [(c0 + d, fs + [x]) for c0, fs in combos for d, x in alts]
            return [(c, AdtVal(val.path, val.variant, fs, val.kind, val.vname)) for c, fs in combos]
        return [((), val)]
    return rec(v, ())


def payload_choice(path, ch):
    """expand choices whose alternatives carry payload fields (structs / data-bearing variants)"""
    for _d, x in ch.alts:
        if isinstance(x, AdtVal) and x.fields and x.path not in STOP_ADTS:
            return True
    return False


class FramePath:
    """one fully expanded grammar path of an accepted frame"""
    __slots__ = ("facts", "frame", "df", "crc", "ids", "leaves", "variant", "label")

    def __init__(self, prog, fcts, frame):
        self.facts = fcts
        self.frame = frame
        self.df = frame.fields[0]
        self.crc = frame.fields[1]
        self.ids = id_values(fcts, range(5))
        self.variant = self.df.vname if isinstance(self.df, AdtVal) else "?"
        self.leaves = flatten(prog, self.df, ("df",))
        self.label = None


def _flatten_top(fcts, v, out):
    if isinstance(v, Choice):
        for d, x in v.alts:
            _flatten_top(tuple(fcts) + tuple(d), x, out)
    else:
        f2, v2 = hoist(v)
        if isinstance(v2, Choice):
            _flatten_top(tuple(fcts) + f2, v2, out)
        else:
            out.append((tuple(fcts) + f2, v2))


def frame_paths(prog, run):
    """(ok_paths, err_alts): accepted grammar paths fully expanded over payload-bearing choices"""
    oks, errs = [], []
    flat = []
    for fcts, v in run.alts:
        _flatten_top(fcts, v, flat)
    for fcts, v in flat:
        if is_ok(v):
            for d, fr in expand_paths(prog, v.fields[0], payload_choice):
                oks.append(FramePath(prog, tuple(fcts) + tuple(d), fr))
        elif is_err(v) and v.fields and isinstance(v.fields[0], Choice):
            for d, x in v.fields[0].alts:
                f2, x2 = hoist(x)
                errs.append((tuple(fcts) + tuple(d) + f2, AdtVal(v.path, v.variant, [x2], v.kind, v.vname)))
        else:
            errs.append((fcts, v))
    return oks, errs


def variant_chain(leaves_or_value, prog=None):
    pass


def describe_path(fp_):
    """label of a grammar path built from public variant names along the value"""
    names = []

    def rec(v):
        if isinstance(v, AdtVal):
            if v.vname and v.vname != v.path.split("::")[-1]:
                names.append(v.path.split("::")[-1] + "::" + v.vname)
            for f in v.fields:
                if isinstance(f, AdtVal) and f.path not in STOP_ADTS:
                    rec(f)
    rec(fp_.df)
    return "/".join(names)
