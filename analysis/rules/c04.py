"""C04 - aircraft address and header fields are taken verbatim from the frame."""
import re

from .. import facts, decode
from ..ai import entry
from ..ai.interp import State
from ..ai.values import AdtVal, ArrayVal, Choice, IntVal, Top, Opaque, RefVal
from ..ref import layout as L
from .common import decode_paths, is_identity, leaf_pub, rng_str, tile

ME_ADT = "adsb_deku::adsb::ME"
BDS_ADT = "adsb_deku::bds::BDS"
ICAO_ADT = "adsb_deku::ICAO"
CAP_ADT = "adsb_deku::Capability"


def misaligned(p):
    return "Capability::Reserved" in p.label


def payload_kind(p):
    for part in p.label.split("/"):
        if part.startswith("ME::") or part.startswith("BDS::") or part.startswith("OperationStatus::"):
            pass
    parts = [x for x in p.label.split("/") if x.startswith(("ME::", "BDS::", "OperationStatus::Reserved"))]
    return "/".join(parts)


def layout_rules(rep, prog, run, oks):
    r1a = rep.rule("R1a", "header fields of every DF variant tile the Annex 10 header slices positionally (splits tolerated; no straddle/merge/reorder) and plain fields are the slice MSB-first")
    r1b = rep.rule("R1b", "announced address (first ICAO-typed field of DF11/17/18/24-31) is exactly f[8..32) on every grammar path")
    r1c = rep.rule("R1c", "a trailing ICAO-typed field is exactly the frame's last 24 bits (every payload variant consumes its 56 bits)")
    seen_variants = set()
    for p in oks:
        if len(p.ids) == 0:
            continue
        dfid = p.ids[0]
        L_bits = L.frame_bits(dfid)
        ref = L.HEADER.get(dfid)
        dfv = "DF::" + p.variant
        seen_variants.add(p.variant)
        if ref is None:
            rep.violation("R1a", "%s:no-reference" % dfv, "accepted DF id %d (%s) has no reference layout" % (dfid, dfv))
            continue
        hdr_end = max(e for _n, _s, e in ref)
        leaves = p.leaves
        icao = [l for l in leaves if l.kind == "adt:" + ICAO_ADT]
        # ---- R1a
        hdr = []
        for l in leaves:
            if ME_ADT in l.adts or BDS_ADT in l.adts:
                if not misaligned(p):
                    continue
            if l.atoms and min(l.atoms) < hdr_end and not (l.path[-1] == "df" and max(l.atoms) < 5):
                hdr.append(l)
        # the ICAO-typed trailing field is not a header field
        hdr = [l for l in hdr if not (icao and l is icao[-1] and len(icao) > 1 and min(l.atoms) >= hdr_end)]
        probs = tile([(leaf_pub(l), l.atoms) for l in hdr], ref)
        rep.instance(r1a, "%s|%s" % (dfv, "misaligned" if misaligned(p) else "aligned"),
                     sample={"path": p.label, "header": [repr(l) for l in hdr][:8]} if dfid in (0, 17) else None)
        if probs:
            tag = ":Capability::Reserved" if misaligned(p) else ""
            rep.violation("R1a", "%s%s:header" % (dfv, tag),
                          "%s (%s): %s" % (dfv, p.label, "; ".join(probs[:4])), site=None, detail={"path": p.label, "problems": probs})
        else:
            for l in hdr:
                for n, s, e in ref:
                    if n in L.IDENTITY_FIELDS and l.atoms and s <= min(l.atoms) and max(l.atoms) < e and l.kind == "int":
                        a = sorted(l.atoms)
                        if not is_identity(l, a[0], a[-1] + 1):
                            rep.violation("R1a", "%s:%s:not-verbatim" % (dfv, leaf_pub(l)),
                                          "%s.%s is not the bits %s MSB-first: %r" % (dfv, leaf_pub(l), rng_str(l.atoms), l.value))
        # ---- R1b
        if dfid in L.ANNOUNCED:
            if not icao:
                rep.violation("R1b", "%s:no-address-field" % dfv, "%s has no ICAO-typed announced-address field" % dfv)
            else:
                a = icao[0]
                rep.instance(r1b, "%s|%s" % (dfv, p.label), sample={"path": p.label, "address": repr(a)} if dfid == 17 else None)
                good = a.atoms == frozenset(range(8, 32)) and icao_identity(a.value, 8)
                if not good:
                    tag = ":Capability::Reserved" if misaligned(p) else ""
                    rep.violation("R1b", "%s%s:address=%s" % (dfv, tag, rng_str(a.atoms)),
                                  "%s: announced address %s is %s, not f[8..32) (path %s)" % (dfv, leaf_pub(a), rng_str(a.atoms), p.label),
                                  detail={"path": p.label})
        # ---- R1c
        last = leaves[-1] if leaves else None
        if last is not None and last.kind == "adt:" + ICAO_ADT and (len(icao) > 1 or dfid not in L.ANNOUNCED):
            rep.instance(r1c, "%s|%s" % (dfv, p.label), sample={"path": p.label, "trailing": repr(last)} if dfid in (4, 17) else None)
            want = frozenset(range(L_bits - 24, L_bits))
            good = last.atoms == want and icao_identity(last.value, L_bits - 24)
            if not good and not misaligned(p):
                pk = payload_kind(p)
                a = sorted(last.atoms)
                if pk and a and len(a) == 24 and a[-1] - a[0] == 23:
                    consumed = a[0] - 32
                    rep.violation("R1c", "%s:consumed=%d" % (pk, consumed),
                                  "payload %s consumes %d bits instead of 56, so the trailing field %s of %s is %s instead of f[%d..%d)"
                                  % (pk, consumed, leaf_pub(last), dfv, rng_str(last.atoms), L_bits - 24, L_bits), detail={"path": p.label})
                else:
                    rep.violation("R1c", "%s:trailing=%s" % (dfv, rng_str(last.atoms)),
                                  "%s: trailing field %s is %s, not the last 24 bits f[%d..%d) (path %s)"
                                  % (dfv, leaf_pub(last), rng_str(last.atoms), L_bits - 24, L_bits, p.label), detail={"path": p.label})
    rep.floor("DF variants with a decoded layout", 11, len(seen_variants))
    rep.floor("grammar paths", 60, len(oks))


def icao_identity(v, start):
    if not isinstance(v, AdtVal) or not v.fields:
        return False
    arr = v.fields[0]
    if not isinstance(arr, ArrayVal) or arr.elems is None or len(arr.elems) != 3:
        return False
    for j, e in enumerate(arr.elems):
        if not isinstance(e, IntVal) or e.bits is None:
            return False
        for k in range(8):
            if e.bits[k] != (1 << (start + 8 * j + 7 - k), 0):
                return False
    return True


def reread_rule(rep, prog, run):
    rid = rep.rule("R1d", "after every identifier re-read seek the reader is back at the bit where the identifier started")
    seen = {}
    for e in run.events:
        if e["kind"] != "seek_last_read" or e.get("skew_before"):
            continue
        after = e["bits_read_before"] + e["leftover_before"] - 8 * e["bytes"]
        start = e["bits_read_before"] - e["last"]
        m = re.match(r"<(.+) as deku::DekuReader", e["fn"])
        enum = m.group(1) if m else e["fn"]
        k = (enum, after == start)
        if k in seen:
            continue
        seen[k] = e
        rep.instance(rid, "%s|%s" % (enum, after == start), sample={"enum": enum, "id_start_bit": start, "bit_after_seek": after})
        if after != start:
            rep.violation("R1d", "%s:reread-misaligned" % enum,
                          "%s: the identifier read started at bit %d (width %d, not byte aligned) but the whole-byte seek re-positions the reader at bit %d; "
                          "the re-read field and everything after it are shifted by %d bits" % (enum, start, e["last"], after, start - after),
                          site="%s:%s" % (e["span"]["file"], e["span"]["line"]) if e.get("span") else None)
    rep.floor("identifier re-read sites", 5, len(set(k[0] for k in seen)))


def text_rule(rep, prog):
    rid = rep.rule("R2", "ICAO Display prints bytes 0,1,2 as {:02x}; FromStr parses radix 16 and keeps big-endian bytes 1,2,3")
    crate = prog.crates["adsb_deku"]
    sites = [s for s in crate.format_sites if len(s["item"]) >= 2 and s["item"][-1] == "fmt"
             and re.match(r"impl (core::)?fmt::Display for ICAO$", s["item"][-2])]
    phs = []
    for s in sites:
        for pc in s["pieces"]:
            if isinstance(pc, dict):
                phs.append((pc, s["args"][pc["arg"]]["expr"] if 0 <= pc["arg"] < len(s["args"]) else "?"))
            elif pc.strip():
                phs.append(({"literal": pc}, pc))
    rep.floor("ICAO Display placeholders", 3, len([p for p in phs if "trait" in p[0]]))
    want = ["self.0[0]", "self.0[1]", "self.0[2]"]
    got = [a.replace(" ", "") for p, a in phs if "trait" in p]
    lits = [a for p, a in phs if "literal" in p]
    okk = got == want and not lits and all(p["trait"] == "LowerHex" and p["width"] == 2 and p["zero_pad"] and not p["alternate"]
                                          for p, _a in phs if "trait" in p)
    for i, (p, a) in enumerate(phs):
        rep.instance(rid, "display-ph%d" % i, sample={"arg": a, "spec": {k: p.get(k) for k in ("trait", "width", "zero_pad")}})
    if not okk:
        rep.violation("R2", "ICAO::Display:template", "ICAO Display is not three zero-padded 2-digit lower-hex bytes in order: %s" %
                      [(a, p.get("trait"), p.get("width"), p.get("zero_pad")) for p, a in phs],
                      site="%s:%s" % (sites[0]["span"]["file"], sites[0]["span"]["lo"][0]) if sites else None)
    # FromStr through the interpreter
    fn = prog.fns.get("<adsb_deku::ICAO as core::str::traits::FromStr>::from_str")
    if fn is None:
        rep.violation("R2", "ICAO::FromStr:anchor", "anchor missing: <ICAO as FromStr>::from_str")
        return
    ip = entry.new_interp(prog, max_seconds=30)
    st = State()
    s = RefVal(st.new_heap(Opaque.make("str_unknown", origin="argument")), False)
    outs = ip.run_function(fn, [s], st)
    oks = []
    for o in outs:
        rv = o.retval
        alts = rv.alts if isinstance(rv, Choice) else [((), rv)]
        for _d, v in alts:
            if decode.is_ok(v):
                oks.append(v.fields[0])
    rep.instance(rid, "from_str", sample={"ok_results": [repr(x)[:160] for x in oks]})
    good = len(oks) >= 1
    whole = True
    for v in oks:
        arr = v.fields[0] if isinstance(v, AdtVal) and v.fields else None
        if not (isinstance(arr, ArrayVal) and arr.elems is not None and len(arr.elems) == 3):
            good = False
            continue
        for j, e in enumerate(arr.elems):
            tags = getattr(e, "tags", frozenset())
            if ("be_byte", j + 1) not in tags or ("parsed_radix", 16) not in tags:
                good = False
            if ("parsed_input", "argument") not in tags:
                whole = False
    if good and not whole:
        rep.violation("R2", "ICAO::FromStr:input", "ICAO::from_str does not parse its argument as it is: the string is trimmed / sliced / rewritten before the radix-16 parse, so some six-digit text forms (e.g. 000000) no longer parse back to the address",
                      site="%s:%s" % (fn["span"]["file"], fn["span"]["lo"][0]))
    if not good:
        rep.violation("R2", "ICAO::FromStr:bytes", "ICAO::from_str does not keep big-endian bytes 1,2,3 of a radix-16 parse: %s" % [repr(x)[:200] for x in oks],
                      site="%s:%s" % (fn["span"]["file"], fn["span"]["lo"][0]))


def run(rep, tier, replay=None):
    prog = facts.load("std")
    run_, oks, errs = decode_paths(prog, 14)
    layout_rules(rep, prog, run_, oks)
    reread_rule(rep, prog, run_)
    text_rule(rep, prog)
    from .common import enum_tables_rule
    enum_tables_rule(rep, prog, "R3", ["adsb_deku::FlightStatus", "adsb_deku::Capability", "adsb_deku::DownlinkRequest", "adsb_deku::UtilityMessageType",
                                       "adsb_deku::KE", "adsb_deku::adsb::ControlFieldType"],
                     "header enumerations (flight status, capability, downlink request, utility message type, KE, control-field type): each variant is selected by exactly the codes Annex 10 assigns to that meaning")
    if run_.unsummarised:
        from .common import unsummarised_policy
        unsummarised_policy(rep, run_.unsummarised, "decode analysis")
    rep.extra["grammar_paths"] = len(oks)
    rep.extra["interp_steps"] = run_.steps
    rep.extra["functions_analysed"] = len(run_.visited)
    rep.assume("deku 0.18.1 Reader/primitive semantics as summarised in analysis/ai/sum_deku.py (read_bits, read_bytes, seek_last_read, [T;N], Vec count, bool)")
    rep.assume("reference header slices in analysis/ref/layout.py (Annex 10 Vol IV)")
    return rep.finish(
        "Path-sensitive abstract interpretation of Frame::from_bytes on a symbolic 14-byte buffer (every frame bit an atom; "
        "GF(2)-affine bit provenance) gives, for every grammar path, the exact frame bits behind every decoded field. "
        "R1a: header fields tile the Annex 10 slices; R1b: announced address = f[8..32); R1c: trailing address/parity = last 24 bits "
        "(<=> every payload variant consumes 56 bits); R1d: identifier re-reads restart at the identifier's first bit; "
        "R2: ICAO Display/FromStr template and byte selection. Exhaustive over grammar paths (identifier-dependent control flow forked, payload bits symbolic).")
