"""C18 - what the radar shows is the tracker's data, placed truthfully on the map (structural skeleton)."""
import re
from fractions import Fraction

from .. import facts, decode, terms as T
from ..ai import entry, sum_tracker
from ..ai.interp import State, top_of
from ..ai.summaries import some, NONE
from ..ai.values import AdtVal, ArrayVal, BOOL, Choice, FloatVal, IntTy, IntVal, Opaque, RefVal, Top, TupleVal, U8, USIZE, fp
from .clients import calls

ROW_NEW = "ratatui::widgets::table::row::Row::<'a>::new"


def collect_syms(v, out=None, depth=0):
    """names of the symbolic record values a displayed cell is made from"""
    out = set() if out is None else out
    if depth > 8 or v is None:
        return out
    if isinstance(v, FloatVal):
        def walk(t):
            if isinstance(t, tuple):
                if len(t) == 2 and t[0] == "sym":
                    out.add(t[1])
                for x in t:
                    walk(x)
        walk(v.term)
        for t in v.tags:
            if isinstance(t, tuple) and len(t) == 2 and t[0] in ("name", "existing"):
                out.add(t[1])
    elif isinstance(v, (IntVal, Top)):
        for t in v.tags:
            if isinstance(t, tuple) and len(t) >= 2 and t[0] in ("name", "existing", "map_key", "key"):
                out.add(t[1] if t[0] != "map_key" and t[0] != "key" else "key")
    elif isinstance(v, Opaque):
        if v.kind == "str":
            out.add("lit:" + v.get("s"))
        for k, x in v.data:
            if k in ("src", "elems", "summary", "inner"):
                if isinstance(x, tuple):
                    for y in x:
                        collect_syms(y, out, depth + 1)
                else:
                    collect_syms(x, out, depth + 1)
    elif isinstance(v, (AdtVal, TupleVal)):
        for f in v.fields:
            collect_syms(f, out, depth + 1)
    elif isinstance(v, ArrayVal) and v.elems:
        for f in v.elems:
            collect_syms(f, out, depth + 1)
    elif isinstance(v, Choice):
        for _d, x in v.alts:
            collect_syms(x, out, depth + 1)
    return out


def make_record(prog, ip, st, with_position):
    S = entry.summaries()
    rec = S.existing_value(ip, st, {"k": "adt", "path": "rsadsb_common::AirplaneState", "args": []})
    names = decode.field_names(prog, rec)
    coords = rec.fields[names.index("coords")]
    cn = decode.field_names(prog, coords)
    cf = list(coords.fields)
    position = AdtVal("adsb_deku::cpr::Position", 0, [FloatVal(64, term=("sym", "rec_lat")), FloatVal(64, term=("sym", "rec_lon"))], vname="Position")
    cf[cn.index("position")] = some(position) if with_position else NONE
    cf[cn.index("kilo_distance")] = some(FloatVal(64, term=("sym", "rec_dist"))) if with_position else NONE
    alt_adt = prog.adts["adsb_deku::Altitude"]
    af = []
    for f in alt_adt["variants"][0]["fields"]:
        if f["name"] == "alt":
            af.append(some(IntVal(IntTy(16, False), 1, 50175, tags=frozenset([("name", "rec_alt")]))))
        else:
            af.append(top_of(f["ty"]))
    slot0 = some(AdtVal("adsb_deku::Altitude", 0, af, vname="Altitude")) if with_position else NONE
    alts = cf[cn.index("altitudes")]
    cf[cn.index("altitudes")] = ArrayVal([slot0, alts.elems[1]], 2)
    rf = list(rec.fields)
    rf[names.index("coords")] = AdtVal(coords.path, 0, cf, vname=coords.vname)
    rf[names.index("heading")] = some(FloatVal(32, term=("sym", "rec_heading")))
    rf[names.index("speed")] = some(FloatVal(32, term=("sym", "rec_speed")))
    rf[names.index("vert_speed")] = some(IntVal(IntTy(16, True), tags=frozenset([("name", "rec_vert_speed")])))
    rf[names.index("callsign")] = some(Opaque.make("string", elems=None, n=IntVal(USIZE, 0, 8), summary=None, src=(IntVal.top(U8, tags=frozenset([("name", "rec_callsign")])),)))
    rf[names.index("num_messages")] = IntVal(IntTy(32, False), tags=frozenset([("name", "rec_num_messages")]))
    return AdtVal(rec.path, 0, rf, vname=rec.vname)


def table_rule(rep, prog):
    rid = rep.rule("R1", "each Airplanes-tab row shows, column by column, the tracker's own data for that aircraft (address, callsign, lat, lon, heading, altitude, vertical rate, speed, distance, message count); blanks only without a position")
    fn = prog.fns.get("radar::airplanes::build_tab_airplanes")
    if fn is None:
        rep.violation("R1", "anchor:build_tab_airplanes", "anchor missing: radar::airplanes::build_tab_airplanes")
        return
    want = [{"key"}, {"rec_callsign"}, {"rec_lat"}, {"rec_lon"}, {"rec_heading"}, {"rec_alt"}, {"rec_vert_speed"}, {"rec_speed"}, {"rec_dist"}, {"rec_num_messages"}]
    header_kw = ["icao", "call", "lat", "lon", "head", "alt", "fpm", "speed", "dist", "msg"]
    for with_position in (True, False):
        rows = []

        def stub_row(ctx):
            v = ctx.args[0]
            rows.append(v)
            return ctx.ret(Opaque.make("row", cells=v))
        ip = entry.new_interp(prog, max_seconds=60, merge_returns=True, stubs={ROW_NEW: stub_row})
        st = State()
        icao = AdtVal("adsb_deku::ICAO", 0, [ArrayVal([IntVal.top(U8, tags=frozenset([("key", j)])) for j in range(3)], 3)], vname="ICAO")
        rec = make_record(prog, ip, st, with_position)
        cell = st.new_heap(rec)
        m = Opaque.make("btreemap", cells=((fp(icao), RefVal(cell, True)),), complete=True, keys=(icao,))
        ploc = st.new_heap(AdtVal("rsadsb_common::Airplanes", 0, [m], vname="Airplanes"))
        f = RefVal(st.new_heap(Top(None)), True)
        chunks = RefVal(st.new_heap(ArrayVal(None, None, None, Top(None))), False, meta=IntVal(USIZE, 2, 2))
        tstate = RefVal(st.new_heap(Top({"k": "adt", "path": "ratatui::widgets::table::table_state::TableState", "args": []})), True)
        outs = ip.run_function(fn, [f, chunks, RefVal(ploc, False), tstate], st)
        data_rows = [r for r in rows if isinstance(r, Opaque) and r.kind == "vec" and r.get("elems") and len(r.get("elems")) == 10
                     and not all(isinstance(e, Opaque) and e.kind == "str" for e in r.get("elems"))]
        hdr_rows = [r for r in rows if isinstance(r, Opaque) and r.kind == "vec" and r.get("elems") and all(isinstance(e, Opaque) and e.kind == "str" for e in r.get("elems"))]
        rep.instance(rid, "rows|position=%s" % with_position, sample={"with_position": with_position, "data_rows": len(data_rows), "header_rows": len(hdr_rows)})
        if not data_rows:
            rep.violation("R1", "table:no-row:position=%s" % with_position, "no 10-column data row is built for a tracked aircraft (position known: %s)" % with_position)
            continue
        if hdr_rows:
            labels = [e.get("s").strip().lower() for e in hdr_rows[0].get("elems")]
            if len(labels) != 10 or any(k not in l for k, l in zip(header_kw, labels)):
                rep.violation("R1", "table:header", "table header %s does not name the ten columns in the order address, callsign, lat, lon, heading, altitude, vertical rate, speed, distance, messages" % labels)
        for r in data_rows[:1]:
            for j, e in enumerate(r.get("elems")):
                syms = {s for s in collect_syms(e) if not s.startswith("lit:")}
                expect = want[j]
                blank_ok = (not with_position) and j in (2, 3, 5, 8)
                rep.instance(rid, "col%d|position=%s" % (j, with_position), sample={"column": j, "shows": sorted(syms)} if with_position else None)
                if blank_ok:
                    if syms & {"rec_lat", "rec_lon", "rec_alt", "rec_dist"}:
                        rep.violation("R1", "table:col%d:not-blank" % j, "column %d shows %s although no position is known" % (j, sorted(syms)))
                    continue
                if not (syms >= expect) or (syms - expect - {"key"}) & {"rec_lat", "rec_lon", "rec_alt", "rec_dist", "rec_heading", "rec_speed", "rec_vert_speed", "rec_num_messages", "rec_callsign"}:
                    rep.violation("R1", "table:col%d" % j, "column %d ('%s') shows %s, expected the record's %s" % (j, header_kw[j], sorted(syms), sorted(expect)))


def stats_rule(rep, prog):
    rid = rep.rule("R2", "statistics: total_airplanes grows by exactly 1 per newly added aircraft; most_airplanes becomes the tracked count when that exceeds it; tab title shows the row count")
    fn = prog.fns.get("radar::stats::Stats::update")
    if fn is None:
        rep.violation("R2", "anchor:Stats::update", "anchor missing: radar::stats::Stats::update")
        return
    adt = prog.adts.get("radar::stats::Stats")
    names = [f["name"] for f in adt["variants"][0]["fields"]] if adt else []
    for added in (1, 0):
        ip = entry.new_interp(prog, max_seconds=60, merge_returns=False)
        st = State()
        fields = []
        for f in adt["variants"][0]["fields"]:
            if f["name"] == "total_airplanes":
                fields.append(IntVal.const(IntTy(32, False), 0))
            else:
                fields.append(top_of(f["ty"], tags=frozenset([("existing", f["name"])])))
        sloc = st.new_heap(AdtVal("radar::stats::Stats", 0, fields, vname="Stats"))
        ploc = st.new_heap(AdtVal("rsadsb_common::Airplanes", 0, [Opaque.make("btreemap", cells=(), complete=False)], vname="Airplanes"))
        av = AdtVal("rsadsb_common::Added", added, [], vname="Yes" if added else "No")
        outs = ip.run_function(fn, [RefVal(sloc, True), RefVal(ploc, False), av], st)
        for o in outs:
            s2 = o.heap[sloc[1]]
            tot = s2.fields[names.index("total_airplanes")]
            rep.instance(rid, "total|added=%d" % added, sample={"added": bool(added), "total_delta": repr(tot)})
            if not (isinstance(tot, IntVal) and tot.is_const() and tot.lo == added):
                rep.violation("R2", "stats:total:added=%d" % added, "Stats::update changes total_airplanes by %r for a frame that %s a new aircraft" % (tot, "added" if added else "did not add"))
            ma = s2.fields[names.index("most_airplanes")]
            if isinstance(ma, AdtVal) and ma.vname == "Some":
                cnt = ma.fields[0].fields[1] if isinstance(ma.fields[0], TupleVal) else None
                okk = isinstance(cnt, IntVal) and ("map_len",) in cnt.tags
                guards = [f[1] for f in o.pc.log if f[0] == "guard"]
                lt = [g for g in guards if g.get("op") in ("Lt", "Gt")]      # `most < count` or, equivalently, `count > most` / a negated `count <= most`
                rep.instance(rid, "most|written", sample={"value": repr(cnt), "guards": [g.get("op") for g in guards]})
                if not okk:
                    rep.violation("R2", "stats:most:value", "most_airplanes is set to %r, not the tracked count" % (cnt,))
                if not lt:
                    rep.violation("R2", "stats:most:guard", "most_airplanes is overwritten without the test `most < current count`")
    # tab title
    fn2 = prog.fns.get("radar::airplanes::build_tab_airplanes")
    crate = prog.crates["radar"]
    titles = [s for s in crate.format_sites if any(isinstance(pc, str) and "Airplanes(" in pc for pc in s["pieces"])]
    rep.instance(rid, "title", sample={"format_sites": len(titles), "args": [a["expr"] for s in titles for a in s["args"]]})
    if not titles or not any("rows_len" in a["expr"] or "len()" in a["expr"] for s in titles for a in s["args"]):
        rep.violation("R2", "title:count", "the Airplanes tab title does not show the number of rows / tracked aircraft")


def projection_rule(rep, prog):
    rid = rep.rule("R3", "map projection: x depends on longitude only and grows to the east, y (screen up) on latitude only and grows to the north, the centre maps to (0,0); aircraft are placed at to_xy(latitude, longitude)")
    fn = prog.fns.get("radar::Settings::to_xy")
    adt = prog.adts.get("radar::Settings")
    if fn is None or adt is None:
        rep.violation("R3", "anchor:Settings::to_xy", "anchor missing: radar::Settings::to_xy")
        return
    names = [f["name"] for f in adt["variants"][0]["fields"]]
    for custom in (False, True):
        ip = entry.new_interp(prog, max_seconds=60, merge_returns=False)
        st = State()
        fields = []
        for f in adt["variants"][0]["fields"]:
            n = f["name"]
            if n in ("scale", "lat", "long"):
                fields.append(FloatVal(64, term=("sym", n)))
            elif n == "custom_lat":
                fields.append(some(FloatVal(64, term=("sym", "custom_lat"))) if custom else NONE)
            elif n == "custom_long":
                fields.append(some(FloatVal(64, term=("sym", "custom_long"))) if custom else NONE)
            elif isinstance(f["ty"], dict) and f["ty"].get("k") == "adt" and f["ty"]["path"] in prog.adts and prog.adts[f["ty"]["path"]]["kind"] == "struct":
                # nested settings (the command line options): their float fields are named symbols too, so that a formula that
                # uses one of them instead of the live receiver position can be shown
                sub = prog.adts[f["ty"]["path"]]
                fields.append(AdtVal(f["ty"]["path"], 0, [FloatVal(g["ty"]["bits"], term=("sym", "%s.%s" % (n, g["name"]))) if isinstance(g["ty"], dict) and g["ty"].get("k") == "float"
                                                          else top_of(g["ty"]) for g in sub["variants"][0]["fields"]], vname=sub["variants"][0]["name"]))
            else:
                fields.append(top_of(f["ty"]))
        sref = RefVal(st.new_heap(AdtVal("radar::Settings", 0, fields, vname="Settings")), False)
        outs = ip.run_function(fn, [sref, FloatVal(64, term=("sym", "P_lat")), FloatVal(64, term=("sym", "P_lon"))], st)
        clat, clon = ("custom_lat", "custom_long") if custom else ("lat", "long")
        for o in outs:
            rv = o.retval
            if not (isinstance(rv, TupleVal) and len(rv.fields) == 2 and all(isinstance(x, FloatVal) for x in rv.fields)):
                rep.violation("R3", "to_xy:result", "to_xy does not return a pair of floats: %r" % (rv,))
                continue
            nx, ny = T.nf(rv.fields[0].term), T.nf(rv.fields[1].term)
            rep.instance(rid, "to_xy|custom=%s" % custom, sample={"x": T.show(nx, 160), "y": T.show(ny, 200)})
            sx, sy = repr(nx), repr(ny)
            # x: k * scale * (P_lon - centre_lon), k > 0, no latitude
            ok_x = nx is not None and "P_lat" not in sx and "'%s'" % clat not in sx
            cx = {}
            if nx is not None:
                for m, c in nx:
                    atoms = tuple(a[1] if a[0] == "sym" else repr(a) for a, _e in m)
                    cx[atoms] = c
            kx = cx.get(("P_lon", "scale")) or cx.get(("scale", "P_lon"))
            kc = cx.get((clon, "scale")) or cx.get(("scale", clon))
            if not ok_x or kx is None or kc is None or kx <= 0 or kx != -kc or len(cx) != 2:
                rep.violation("R3", "projection:x", "screen x is not k*scale*(longitude - centre longitude) with k > 0 independent of latitude: %s" % T.show(nx, 300))
            # y: k2 * scale * (g(P_lat) - g(centre_lat)), k2 > 0 after the flip, g = ln(tan(pi/4 + lat/2)); no longitude
            ok_y = ny is not None and "P_lon" not in sy and "'%s'" % clon not in sy
            pos = neg = None
            if ny is not None:
                for m, c in ny:
                    txt = repr(m)
                    if "'ln'" in txt and "'tan'" in txt:
                        if "P_lat" in txt:
                            pos = c
                        elif "'%s'" % clat in txt:
                            neg = c
            if not ok_y or pos is None or neg is None or pos <= 0 or pos != -neg or len(ny) != 2:
                rep.violation("R3", "projection:y", "screen y is not k*scale*(g(latitude) - g(centre latitude)) with k > 0 (north up) independent of longitude: %s" % T.show(ny, 400))
    # call sites of to_xy pass (latitude, longitude) in that order
    n = 0
    for f in prog.crates["radar"].fns.values():
        for i, p, full, c in calls(f):
            if p == "radar::Settings::to_xy":
                n += 1
    rep.instance(rid, "to_xy-call-sites", sample={"call_sites": n})
    import struct
    hi = prog.consts.get("radar::MAX_PLOT_HIGH")
    lo = prog.consts.get("radar::MAX_PLOT_LOW")
    if hi and lo and hi["value"].get("bits") and lo["value"].get("bits"):
        h = struct.unpack("<d", struct.pack("<Q", int(hi["value"]["bits"], 16)))[0]
        l = struct.unpack("<d", struct.pack("<Q", int(lo["value"]["bits"], 16)))[0]
        rep.instance(rid, "canvas-bounds", sample={"low": l, "high": h})
        if h <= 0 or l != -h:
            rep.violation("R3", "canvas:bounds", "canvas bounds [%r, %r] are not symmetric about the centre" % (l, h))


def view_rule(rep, prog):
    rid = rep.rule("R4", "zoom, pan and reset write only the view fields (scale, custom_lat, custom_long)")
    ALLOWED = {"scale", "custom_lat", "custom_long"}
    muts = [p for p in prog.crates["radar"].fns if re.match(r"^radar::Settings::(scale_increase|scale_decrease|lat_increase|lat_decrease|long_increase|long_decrease|reset)$", p)]
    for p in sorted(muts):
        f = prog.fns[p]
        written = set()
        for b in f["blocks"]:
            for s in b["stmts"]:
                if "assign" in s:
                    pl = s["assign"][0]
                    for pj in pl["proj"]:
                        if "field" in pj and pj.get("name") and any("deref" in x for x in pl["proj"]):
                            written.add(pj["name"])
                            break
        written = {w for w in written if w not in ("0",)}
        rep.instance(rid, p, sample={"mutator": p, "fields_written": sorted(written)})
        if not written <= ALLOWED:
            rep.violation("R4", "view-mutator:%s" % p.rsplit("::", 1)[1], "%s writes %s besides the view fields" % (p, sorted(written - ALLOWED)))
        for i, cp, full, c in calls(f):
            if cp.startswith("rsadsb_common::"):
                rep.violation("R4", "view-mutator-calls:%s" % p.rsplit("::", 1)[1], "%s calls into the tracker (%s)" % (p, cp))
    rep.floor("view mutators", 7, len(muts))


def reset_rule(rep, prog):
    rid = rep.rule("R5", "reset restores the default view: both centre overrides (custom_lat, custom_long) become None and scale becomes the configured scale, so by R3 the receiver is back at the centre")
    f = prog.fns.get("radar::Settings::reset")
    adt = prog.adts.get("radar::Settings")
    if f is None or adt is None:
        rep.violation("R5", "anchor:reset", "anchor missing: radar::Settings::reset")
        return
    ip = entry.new_interp(prog, max_seconds=60, merge_returns=False)
    st = State()

    # tagged record: every field unknown, tagged with its dotted path from the Settings value
    def mk(tyj, prefix):
        a = prog.adts.get(tyj["path"]) if isinstance(tyj, dict) and tyj.get("k") == "adt" else None
        if a is not None and a["kind"] == "struct" and tyj["path"].startswith("radar::"):
            return AdtVal(tyj["path"], 0, [mk(fl["ty"], prefix + fl["name"] + ".") for fl in a["variants"][0]["fields"]], vname=a["variants"][0]["name"])
        return top_of(tyj, tags=frozenset([("existing", prefix.rstrip("."))]))
    rec = mk({"k": "adt", "path": "radar::Settings", "args": []}, "")
    sloc = st.new_heap(rec)
    outs = ip.run_function(f, [RefVal(sloc, True)], st)
    names = [fl["name"] for fl in adt["variants"][0]["fields"]]
    n = 0
    for o in outs:
        n += 1
        s2 = o.heap[sloc[1]]
        for fld in ("custom_lat", "custom_long"):
            if fld not in names:
                rep.violation("R5", "anchor:%s" % fld, "Settings has no field %s" % fld)
                continue
            v = s2.fields[names.index(fld)]
            rep.instance(rid, fld, sample={"field": fld, "after_reset": repr(v)[:60]})
            if not (isinstance(v, AdtVal) and v.path == "core::option::Option" and v.variant == 0):
                rep.violation("R5", "reset:%s:not-restored" % fld, "after Settings::reset the centre override %s is %r, not None: a pan survives the reset and the receiver is not back at the centre" % (fld, v))
        if "scale" in names:
            v = s2.fields[names.index("scale")]
            rep.instance(rid, "scale", sample={"after_reset": repr(getattr(v, "term", v))[:60]})
            if not (isinstance(v, FloatVal) and v.term == ("sym", "existing:opts.scale")):
                rep.violation("R5", "reset:scale:not-restored", "after Settings::reset the scale is %r, not the configured opts.scale" % (getattr(v, "term", v),))
        for i, fld in enumerate(names):
            if fld in ("custom_lat", "custom_long", "scale"):
                continue
            if fp(s2.fields[i]) != fp(rec.fields[i]):
                rep.violation("R5", "reset:%s:changed" % fld, "Settings::reset changes %s" % fld)
    rep.floor("reset outcomes", 1, n)


def _owner_fields(fn, pl):
    """(owner ADT path, field name) for every field projection of a place"""
    t = fn["locals"][pl["local"]]["ty"]
    out = []
    for pj in pl["proj"]:
        if "deref" in pj:
            if isinstance(t, dict) and t.get("k") == "ref":
                t = t.get("to")
            continue
        if "field" in pj:
            owner = t.get("path") if isinstance(t, dict) and t.get("k") == "adt" else None
            out.append((owner, pj.get("name")))
            t = pj.get("ty")
        else:
            t = None
    return out


def receiver_rule(rep, prog):
    rid = rep.rule("R6", "the receiver position (Settings.lat / Settings.long), from which distances are computed and on which the default view is centred, is written only by Settings::new and by the GPS update in main: no key / mouse handler or view mutator assigns it or borrows it mutably")
    ALLOWED = {"radar::Settings::new": 0, "radar::main": 2}
    seen = {}
    for path, f in sorted(prog.crates["radar"].fns.items()):
        for b in f["blocks"]:
            for s in b["stmts"]:
                if "assign" not in s:
                    continue
                pl, rv = s["assign"]
                hits = []
                of = _owner_fields(f, pl)
                if of and of[-1][0] == "radar::Settings" and of[-1][1] in ("lat", "long"):
                    hits.append(("assigns", of[-1][1]))
                if isinstance(rv, dict) and "ref" in rv and rv["ref"].get("mut"):
                    of2 = _owner_fields(f, rv["ref"]["place"])
                    if of2 and of2[-1][0] == "radar::Settings" and of2[-1][1] in ("lat", "long"):
                        hits.append(("mutably borrows", of2[-1][1]))
                for what, fld in hits:
                    seen.setdefault(pub_path(path), []).append((what, fld))
    for path, hs in sorted(seen.items()):
        rep.instance(rid, path, sample={"fn": path, "writes": hs})
        if path not in ALLOWED or len(hs) > ALLOWED[path]:
            rep.violation("R6", "receiver-position-writer:%s" % path, "%s %s Settings.%s (the receiver position): panning and zooming may only change the view (custom_lat / custom_long / scale)" % (path, hs[0][0], hs[0][1]))
    rep.instance(rid, "writers", sample={"writers": sorted(seen)})
    if "radar::main" not in seen:
        rep.info("no GPS update of the receiver position found in main")


def pub_path(path):
    return re.sub(r"(::\{closure#\d+\})+$", "", path)


def run(rep, tier, replay=None):
    prog = facts.load("std")
    receiver_rule(rep, prog)
    table_rule(rep, prog)
    stats_rule(rep, prog)
    projection_rule(rep, prog)
    view_rule(rep, prog)
    reset_rule(rep, prog)
    rep.assume("NOT decided: what ratatui draws (cell mapping, clipping), numeric proportionality of offsets, terminal output")
    rep.assume("scale > 0 (CLI default, multiplicative zoom)")
    return rep.finish(
        "Structural skeleton only. R1: build_tab_airplanes is interpreted on a tracker holding one record with named symbolic values; the ten cells handed to Row::new are "
        "matched column by column with the record's values (and blanks without a position). R2: Stats::update interpreted for Added::Yes/No. R3: to_xy's polynomial normal "
        "forms: x = k*scale*(lon - centre lon), y = k*scale*(g(lat) - g(centre lat)) with positive k, independent of the other coordinate, centre -> (0,0). R4: field-writer sets of the view mutators. R5: Settings::reset interpreted on a tagged record. R6: writers / mutable borrowers of the receiver position.")
