"""C19 - reader decoding is independent of read fragmentation and transient errors."""
from .. import facts, decode
from ..ai import entry
from ..ai.interp import State
from ..ai.sum_deku import byte_val, find_impl_fn
from ..ai.values import AdtVal, ArrayVal, BOOL, Choice, IntTy, IntVal, Opaque, RefVal, TupleVal, USIZE, U8, fp
from .common import decode_paths

FROM_READER = "adsb_deku::Frame::from_reader"


def wrapper_adt(prog):
    """the type handed to deku::Reader::new inside Frame::from_reader"""
    fn = prog.fns.get(FROM_READER)
    if fn is None:
        return None
    for b in fn["blocks"]:
        t = b["term"]
        if t and "call" in t and "path" in t["call"]["callee"] and t["call"]["callee"]["path"].startswith("deku::reader::Reader::<'a, R>::new"):
            for ty in t["call"]["callee"].get("targs", []):
                if ty.get("k") == "adt" and ty["path"].startswith("adsb_deku::"):
                    return ty["path"]
    return None


def make_wrapper(prog, st, adt_path, flag, fault, cache_n=2, src_n=6, src_pos=2):
    adt = prog.adts[adt_path]
    fields = []
    info = {}
    for i, f in enumerate(adt["variants"][0]["fields"]):
        ty = f["ty"]
        if ty.get("k") == "bool":
            fields.append(IntVal.const(BOOL, 1 if flag else 0))
            info["flag"] = i
        elif ty.get("k") == "adt" and ty["path"] == "alloc::vec::Vec":
            fields.append(Opaque.make("vec", elems=tuple(byte_val(j) for j in range(cache_n)), n=cache_n, summary=None))
            info["cache"] = i
        else:
            fields.append(Opaque.make("src", data=None, pos=src_pos, n=src_n, fault=tuple(fault)))
            info["src"] = i
    return AdtVal(adt_path, 0, fields, vname=adt["variants"][0]["name"]), info


def typestate_rule(rep, prog):
    rid = rep.rule("R1", "the caching reader wrapper: read() caches exactly the bytes of a successful non-re-read and clears the re-read flag only on success; on Err neither cache nor flag changes; seek() only sets the flag and forwards")
    adt_path = wrapper_adt(prog)
    if adt_path is None or adt_path not in prog.adts:
        rep.violation("R1", "anchor:wrapper", "cannot identify the reader wrapper handed to deku::Reader::new in Frame::from_reader")
        return None
    read_fn = find_impl_fn(prog, adt_path, "io::Read", "read") or find_impl_fn(prog, adt_path, "Read", "read")
    seek_fn = find_impl_fn(prog, adt_path, "io::Seek", "seek") or find_impl_fn(prog, adt_path, "Seek", "seek")
    if read_fn is None or seek_fn is None:
        rep.violation("R1", "anchor:wrapper-impls", "Read/Seek impls of %s not found" % adt_path)
        return adt_path
    n = 0
    # a source that hands out one byte and then fails with Interrupted: whatever the wrapper returns, the bytes it took from the
    # source must be the bytes it cached / reported (a wrapper that keeps reading after a short read loses them on the error)
    for flag in (False, True):
        ip = entry.new_interp(prog, max_seconds=30, merge_returns=False)
        st = State()
        w, info = make_wrapper(prog, st, adt_path, flag, [1, "interrupted", 1, "interrupted"])
        if set(info) != {"flag", "cache", "src"}:
            break
        wloc = st.new_heap(w)
        bufloc = st.new_heap(ArrayVal([IntVal.const(U8, 0)] * 3, 3))
        outs = ip.run_function(read_fn, [RefVal(wloc, True), RefVal(bufloc, True, meta=IntVal.const(USIZE, 3))], st)
        for o in outs:
            n += 1
            w2 = o.heap[wloc[1]]
            cache = w2.fields[info["cache"]]
            src = w2.fields[info["src"]]
            rv = o.retval
            ce = cache.get("elems") if isinstance(cache, Opaque) else None
            took = (src.get("pos") - 2) if isinstance(src, Opaque) and isinstance(src.get("pos"), int) else None
            is_ok = isinstance(rv, AdtVal) and rv.vname == "Ok"
            ret_n = rv.fields[0].cval() if is_ok and isinstance(rv.fields[0], IntVal) and rv.fields[0].is_const() else None
            case = "flag=%s,inner=short-then-interrupted" % flag
            rep.instance(rid, "read|%s" % case, sample={"case": case, "taken_from_source": took, "returned": repr(rv)[:40], "cache_len_after": len(ce) if ce is not None else None})
            if took is None or ce is None:
                rep.violation("R1", "read:%s:inexact" % case, "wrapper state after read() is not exact")
                continue
            reported = ret_n if is_ok else 0
            if reported is None or took != reported:
                rep.violation("R1", "read:short-then-error:bytes-lost", "read() took %s byte(s) from the source but reports %s: on a short read followed by a transient error the bytes already taken are lost to the decoder" % (took, "Ok(%s)" % ret_n if is_ok else "an error"))
            elif not flag and len(ce) != 2 + took:
                rep.violation("R1", "read:short-then-error:cache", "read() took %d byte(s) from the source but cached %d" % (took, len(ce) - 2))
    for flag in (False, True):
        for outcome in ("ok", "err"):
            ip = entry.new_interp(prog, max_seconds=30, merge_returns=False)
            st = State()
            w, info = make_wrapper(prog, st, adt_path, flag, ["interrupted"] if outcome == "err" else [])
            if set(info) != {"flag", "cache", "src"}:
                rep.violation("R1", "anchor:wrapper-shape", "%s is not (source, byte cache, flag): %s" % (adt_path, sorted(info)))
                return adt_path
            wloc = st.new_heap(w)
            bufloc = st.new_heap(ArrayVal([IntVal.const(U8, 0)] * 3, 3))
            outs = ip.run_function(read_fn, [RefVal(wloc, True), RefVal(bufloc, True, meta=IntVal.const(USIZE, 3))], st)
            for o in outs:
                n += 1
                w2 = o.heap[wloc[1]]
                cache = w2.fields[info["cache"]]
                fl = w2.fields[info["flag"]]
                rv = o.retval
                case = "flag=%s,inner=%s" % (flag, outcome)
                ce = cache.get("elems") if isinstance(cache, Opaque) else None
                rep.instance(rid, "read|%s" % case, sample={"case": case, "cache_len_after": len(ce) if ce is not None else None, "flag_after": repr(fl), "returns": repr(rv)[:40]})
                if ce is None or not isinstance(fl, IntVal) or not fl.is_const():
                    rep.violation("R1", "read:%s:inexact" % case, "wrapper state after read() is not exact: cache %r flag %r" % (cache, fl))
                    continue
                want_len = 2 + (3 if (outcome == "ok" and not flag) else 0)
                want_flag = 0 if outcome == "ok" else (1 if flag else 0)
                if len(ce) != want_len:
                    rep.violation("R1", "read:%s:cache" % case, "read() with %s leaves %d cached bytes, expected %d" % (case, len(ce), want_len))
                elif outcome == "ok" and not flag:
                    got = [fp(x) for x in ce[2:]]
                    want = [fp(byte_val(2 + j)) for j in range(3)]
                    if got != want:
                        rep.violation("R1", "read:%s:cache-content" % case, "read() does not append exactly the bytes it returned, in order")
                if fl.lo != want_flag:
                    rep.violation("R1", "read:%s:flag" % case, "read() with %s leaves the re-read flag %s, expected %s%s" % (
                        case, bool(fl.lo), bool(want_flag), " (a retried re-read after a transient error would then be cached twice)" if outcome == "err" and flag else ""))
                is_ok = isinstance(rv, AdtVal) and rv.vname == "Ok"
                if (outcome == "ok") != is_ok:
                    rep.violation("R1", "read:%s:result" % case, "read() does not forward the inner result: %r" % (rv,))
    # seek
    # the second configuration is a wrapper whose source did not start at stream position 0 (a second frame read from one stream):
    # the cache counts bytes of this decode, the source position is absolute
    for flag, src_pos in ((False, 2), (True, 2), (False, 9), (True, 9)):
        ip = entry.new_interp(prog, max_seconds=30, merge_returns=False)
        st = State()
        w, info = make_wrapper(prog, st, adt_path, flag, [], src_n=16, src_pos=src_pos)
        wloc = st.new_heap(w)
        sf = AdtVal("std::io::SeekFrom", 2, [IntVal.const(IntTy(64, True), -1)], vname="Current")
        outs = ip.run_function(seek_fn, [RefVal(wloc, True), sf], st)
        for o in outs:
            n += 1
            w2 = o.heap[wloc[1]]
            fl = w2.fields[info["flag"]]
            src = w2.fields[info["src"]]
            cache = w2.fields[info["cache"]]
            rep.instance(rid, "seek|flag=%s,source_at=%d" % (flag, src_pos), sample={"flag_after": repr(fl), "source_pos_after": src.get("pos") if isinstance(src, Opaque) else None})
            if not (isinstance(fl, IntVal) and fl.is_const() and fl.lo == 1):
                rep.violation("R1", "seek:flag", "seek() with the source at absolute position %d and %d cached bytes leaves the re-read flag %r, expected true (the re-read that follows would be cached twice)" % (src_pos, 2, fl))
            if not (isinstance(src, Opaque) and src.get("pos") == src_pos - 1):
                rep.violation("R1", "seek:forward", "seek() does not forward the seek to the inner source")
            if not (isinstance(cache, Opaque) and cache.get("elems") is not None and len(cache.get("elems")) == 2):
                rep.violation("R1", "seek:cache", "seek() changes the byte cache")
    rep.floor("wrapper transitions", 10, n)
    return adt_path


def reread_rule(rep, prog):
    rid = rep.rule("R2", "every identifier re-read seeks back exactly one byte and re-requests at most one byte, so no read schedule can split a re-read")
    run_, oks, errs = decode_paths(prog, 14)
    n = 0
    for e in run_.events:
        if e["kind"] == "seek_last_read":
            n += 1
            rep.instance(rid, "%s|last=%d" % (e["fn"], e["last"]), sample={"enum": e["fn"], "bits": e["last"], "bytes_back": e["bytes"]} if n == 1 else None)
            if e["bytes"] != 1 or e["last"] > 8:
                rep.violation("R2", "reread:%s:multi-byte" % e["fn"].split(" as ")[0].lstrip("<"), "%s re-reads %d bits by seeking %d bytes back: a fragmented re-read could be partially cached" % (e["fn"], e["last"], e["bytes"]))
        if e["kind"] == "src_seek" and e["delta"] != -1:
            rep.violation("R2", "seek:delta=%d" % e["delta"], "the source is sought by %d bytes" % e["delta"])
    rep.floor("re-read sites", 5, n)
    return run_, oks


def schedule_rule(rep, prog, oks, schedules, rule="R2b", crc_only=False,
                  text="under scripted read schedules (one byte per call; a transient Interrupted error before every successful call) every grammar path yields the same frame and checksum as slice decoding"):
    rid = rep.rule(rule, text)
    fn = prog.fns.get(FROM_READER)
    from ..ai.pathcond import PathCond
    from ..ref import crc as refcrc
    from ..ref import layout as L
    ref = {56: refcrc.syndrome_bits(56), 112: refcrc.syndrome_bits(112)}

    def sig(p):
        """checksum as deviation from the reference syndrome modulo the path's constraints + field slices"""
        pc = PathCond()
        for f in p.facts:
            if f[0] == "lin":
                pc.add_lin(f[1], f[2], record=False)
        Lb = L.frame_bits(p.ids[0]) if p.ids else 112
        dev = []
        if isinstance(p.crc, IntVal) and p.crc.bits is not None:
            for j, e in enumerate(p.crc.bits):
                want = (ref[Lb][j], 0) if j < 24 else (0, 0)
                if e is None or pc.reduce(e) != pc.reduce(want):
                    dev.append(j)
        else:
            dev = ["inexact"]
        if crc_only:
            return (tuple(dev),)
        return (tuple(dev), tuple((".".join(l.path), tuple(sorted(l.atoms))) for l in p.leaves))
    base = {}
    for p in oks:
        base.setdefault(p.label, set()).add(sig(p))
    for name, fault in schedules:
        ip = entry.new_interp(prog, max_seconds=300)
        st = State()
        src = Opaque.make("src", data=None, pos=0, n=14, fault=tuple(fault))
        outs = ip.run_function(fn, [src], st)
        alts = []
        for o in outs:
            rv = o.retval
            b0 = tuple(o.pc.log)
            for d, v in (rv.alts if isinstance(rv, Choice) else [((), rv)]):
                f2, v2 = decode.hoist(v)
                alts.append((b0 + tuple(d) + f2, v2))
        run2 = decode.DecodeRun(14, alts, [], ip.obligations, ip.unsummarised, ip.steps, 0, [])
        oks2, errs2 = decode.frame_paths(prog, run2)
        got = {}
        for p in oks2:
            p.label = decode.describe_path(p)
            got.setdefault(p.label, set()).add(sig(p))
        rep.instance(rid, name, sample={"schedule": name, "grammar_paths": len(oks2)})
        if set(got) != set(base):
            miss = sorted(set(base) - set(got))[:3]
            extra = sorted(set(got) - set(base))[:3]
            rep.violation(rule, "schedule:%s:paths" % name, "under schedule '%s' the set of accepted grammar paths differs (missing %s, extra %s)" % (name, miss, extra))
            continue
        bad = [l for l in base if base[l] != got[l]]
        for l in sorted(bad)[:1]:
            rep.violation(rule, "schedule:%s:result" % name, "under schedule '%s' %d grammar path(s) decode differently from the slice (e.g. %s: checksum or fields differ)" % (name, len(bad), l))
        for l in base:
            rep.rules[rid]["instances"] += 1
            rep.rules[rid]["nontrivial"].add("%s|%s" % (name, l))


def purity_rule(rep, prog):
    rid = rep.rule("R3", "decoding has no global state: the decoder crate has no mutable or interior-mutable statics and no thread-locals")
    crate = prog.crates["adsb_deku"]
    n = 0
    for path, s in crate.statics.items():
        n += 1
        if s["mutable"] or s["interior_mut"] or s["thread_local"]:
            rep.violation("R3", "static:%s" % path, "static %s is mutable / interior-mutable / thread-local: decoding could depend on earlier calls" % path)
    rep.instance(rid, "statics", sample={"statics_in_adsb_deku": n})
    # positive control: the rule sees statics of the workspace (the radar binary's tracing callsites are statics)
    total = sum(len(c.statics) for c in prog.crates.values())
    rep.instance(rid, "control", sample={"statics_in_workspace": total})
    if total == 0:
        rep.violation("R3", "control:no-statics-seen", "the static inventory is empty for the whole workspace: the extractor no longer reports statics")


def run(rep, tier, replay=None):
    prog = facts.load("std")
    typestate_rule(rep, prog)
    run_, oks = reread_rule(rep, prog)
    scheds = [("one-byte-reads", [1] * 64), ("interrupted-before-every-read", ["interrupted", 14] * 40)]
    if tier == "thorough":
        scheds.append(("interrupted-and-one-byte", ["interrupted", 1] * 80))
    schedule_rule(rep, prog, oks, scheds)
    purity_rule(rep, prog)
    rep.assume("read_exact / read_to_end retry on ErrorKind::Interrupted and loop over short reads (std / no_std_io2 contract)")
    rep.assume("equality for ALL schedules follows from R1+R2 (cache content is schedule independent) by argument; R2b checks scripted schedules through the same abstract interpretation")
    rep.info("non-transient reader errors reach read_to_end(..).unwrap() in Frame::read_crc and panic (outside C19's fault model of Interrupted only)")
    return rep.finish(
        "R1: the Read and Seek impls of the caching wrapper (identified structurally as the type handed to deku::Reader::new in Frame::from_reader) are "
        "interpreted on concrete wrapper states x {inner Ok, inner Err(Interrupted)}: cache and flag transitions are compared with the typestate table. "
        "R2: all identifier re-reads are single-byte. R2b: Frame::from_reader is interpreted over a scripted source (one byte per read; Interrupted before each "
        "read) and every grammar path's checksum forms and field provenance must equal those of slice decoding. R3: no global mutable state in the decoder crate.")
