"""C11 - text rendering shows exactly the decoded values in a fixed per-type template."""
import re

from .. import facts, decode
from ..ai import entry
from ..ai.interp import State
from ..ai.values import AdtVal, Choice, FloatVal, IntVal, Opaque, RefVal, Top, deps_of
from .common import decode_paths, rng_str
from . import tracker

FMT = "<adsb_deku::Frame as core::fmt::Display>::fmt"

# label keyword (lower case, as found in the literal text before a placeholder) -> admissible decoded fields (public names)
LABELS = [
    ("cpr latitude", {"lat_cpr"}), ("cpr longitude", {"lon_cpr"}), ("cpr odd flag", {"odd_flag"}),
    ("target altitude", {"altitude"}), ("baro altitude", {"altitude", "alt", "ac"}), ("altitude", {"altitude", "alt", "ac"}),
    ("identity", {"id"}), ("squawk", {"id", "squawk"}), ("ident", {"cn", "AircraftIdentification"}),
    ("icao address", {"crc", "icao"}), ("address", {"icao", "aa", "crc"}), ("air/ground", {"capability", "fs", "flight_status"}),
    ("category", {"tc", "ca"}), ("gnss delta", {"gnss_sign", "gnss_baro_diff"}), ("ias", {"airspeed"}),
    ("baro rate", {"vrate_sign", "vrate_value"}), ("nacv", {"nac_v"}), ("altimeter setting", {"qnh"}), ("qnh", {"qnh"}),
    ("target heading", {"heading"}), ("nacp", {"nacp", "navigational_accuracy_category"}), ("nicbaro", {"nicbaro", "barometric_altitude_integrity"}),
    ("sil", {"sil", "source_integrity_level"}), ("emergency", {"emergency_state"}), ("version", {"version_number"}),
    ("capability classes", {"capability_class", "lw_codes"}), ("operational modes", {"operational_mode"}), ("nic-a", {"nic_supplement_a"}),
    ("gva", {"geometric_vertical_accuracy"}), ("l/w", {"lw_codes"}), ("nic-c", {"nic_supplement_c"}),
    ("sda", {"system_design_assurance"}),
]
DERIVED = [("heading", "track"), ("speed", "speed"), ("vertical rate", "vrate")]


def site_index(prog):
    idx = {}
    for s in prog.crates["adsb_deku"].format_sites:
        es = s.get("expr_span") or {}
        sp = s["span"]
        if es.get("cs_lo"):
            idx[(es.get("cs_file") or es["file"], es["cs_lo"][0])] = s
        idx.setdefault((sp.get("cs_file") or sp["file"], (sp.get("cs_lo") or sp["lo"])[0]), s)
    return idx


def find_site(idx, sp):
    if not sp:
        return None
    f = sp.get("cs_file") or sp.get("file")
    ln = (sp.get("cs_lo") or sp.get("lo") or [0])[0]
    s = idx.get((f, ln))
    if s is not None:
        return s
    for d in range(1, 6):
        s = idx.get((f, ln + d)) or idx.get((f, ln - d))
        if s is not None:
            return s
    return None


def leaf_name(l):
    for x in reversed(l.path):
        if not (x.isdigit() or x.startswith("[")):
            return x
    return l.path[-1]


def run_fmt(prog, p, merge=False):
    ip = entry.new_interp(prog, max_seconds=120, merge_returns=merge, fmt_infallible=True)
    st = State()
    for f in p.facts:
        if not st.pc.apply_fact(f) or st.pc.dead:
            return ip, []
    fref = RefVal(st.new_heap(p.frame), False)
    fm = RefVal(st.new_heap(Opaque.make("formatter")), True)
    ip.frame_cell = fref.loc[1]
    outs = ip.run_function(prog.fns[FMT], [fref, fm], st)
    return ip, outs


def loc_field_path(prog, frame, cell, loc):
    """names of the fields along a location inside the rendered frame's own storage (None if the value lives elsewhere)"""
    if not loc or loc[0] != "H" or loc[1] != cell:
        return None
    v = frame
    names = []
    for pr in loc[-1]:
        if pr[0] == "f":
            if isinstance(v, AdtVal) and pr[1] < len(v.fields):
                fn_ = decode.field_names(prog, v)
                names.append(fn_[pr[1]])
                v = v.fields[pr[1]]
                if isinstance(v, AdtVal) and v.vname and v.vname != v.path.split("::")[-1]:
                    names.append(v.vname)       # the variant the field holds on this path (as in leaf paths)
            else:
                return names or None
        elif pr[0] == "d":
            continue
        else:
            return names or None
    return names


def arg_slots(site):
    """placeholder piece (by position in site['pieces']) -> index of its value in the run-time argument array. The compiler builds
    that array from the distinct (argument, trait) pairs in the order the placeholders first use them, a width / precision taken
    from an argument following its placeholder's value as a `usize` entry (width first)."""
    slots = {}
    out = {}
    for i, pc in enumerate(site["pieces"]):
        if not isinstance(pc, dict):
            continue
        k = (pc["arg"], pc["trait"])
        if k not in slots:
            slots[k] = len(slots)
        out[i] = slots[k]
        for ca in (pc.get("width_arg"), pc.get("precision_arg")):
            if isinstance(ca, int) and ca >= 0:
                k2 = (ca, "usize")
                if k2 not in slots:
                    slots[k2] = len(slots)
    return out


def truncating_specs(idx, outs, seen=None):
    """placeholders exercised by the write_fmt events of `outs` whose format spec carries a precision although the argument is not a
    floating-point number: for strings (and everything printed through `Formatter::pad`) a precision cuts the text off"""
    found = []
    seen = set() if seen is None else seen
    for o in outs:
        for e in o.events:
            if e["kind"] != "write_fmt" or id(e) in seen:
                continue
            seen.add(id(e))
            site = find_site(idx, e["span"])
            if site is None:
                continue
            slots = arg_slots(site)
            for pi, pc in enumerate(site["pieces"]):
                if not isinstance(pc, dict) or pc.get("precision") is None:
                    continue
                ai = slots[pi]
                if ai >= len(e["args"]):
                    continue
                tr, ty, v = e["args"][ai]
                if isinstance(v, FloatVal) or str(ty).lstrip("&").strip() in ("f64", "f32"):
                    continue
                expr = site["args"][pc["arg"]]["expr"] if 0 <= pc["arg"] < len(site["args"]) else "?"
                found.append((site, pc, expr, ty, v))
    return found


def _strs_in(v, depth=0):
    """literal text inside a string value: the string itself, or the sources a formatted / converted String was built from"""
    out = []
    if isinstance(v, Opaque) and depth < 4:
        if isinstance(v.get("s"), str):
            out.append(v.get("s"))
        for x in v.get("src") or ():
            out.extend(_strs_in(x, depth + 1))
    return out


def keyword_of(text):
    t = text.lower()
    for k, fields in LABELS:
        if k in t:
            return k, fields
    return None, None


def render_rules(rep, prog, oks):
    r1 = rep.rule("R1", "the value printed after a label is that frame's own decoded field of the label's class (matched by bit provenance)")
    r2 = rep.rule("R2", "address source: formats 0/4/5/16/20/21/24-31 print the checksum-derived address, DF11/17/18 the announced address")
    r5 = rep.rule("R5", "every supported frame type other than DF19 renders a non-empty report on every path")
    if FMT not in prog.fns:
        rep.violation("R1", "anchor:Frame::fmt", "anchor missing: <Frame as Display>::fmt")
        return
    idx = site_index(prog)
    reps = tracker.representative_paths(oks)
    n_ph = n_loc = 0
    sites_seen = set()
    for label, p in sorted(reps.items()):
        ip, outs = run_fmt(prog, p, merge=True)
        if ip.unsummarised:
            from .common import unsummarised_policy
            unsummarised_policy(rep, ip.unsummarised, "rendering analysis")
        for k, ob in ip.obligations.items():
            if ob["failed"]:
                rep.violation("R1", "render:panic-site:%s" % "|".join(k.split("|")[1:3]), "possible panic while rendering %s: %s %s" % (label, k, ob["detail"]))
        leaves = list(p.leaves)
        crc_atoms = p.crc.deps if isinstance(p.crc, IntVal) else frozenset()
        by_atoms = {}
        for l in leaves:
            if l.atoms:
                by_atoms.setdefault(frozenset(l.atoms), []).append(l)
        dfid = p.ids[0]
        wrote_any_all = True
        done_ev = set()
        for site, pc, expr, ty, _v in truncating_specs(idx, outs):
            rep.violation("R1", "truncated:%s:%s" % ("::".join(site["item"][-2:]), expr),
                          "%s: `%s` (%s) is printed with a precision (%r), which cuts the text off instead of showing the decoded value in full (%s:%d)"
                          % (label, expr, ty, pc.get("precision"), site["span"]["file"], site["span"]["lo"][0]))
        for o in outs:
            evs = [e for e in o.events if e["kind"] == "write_fmt"]
            if not evs and not (isinstance(o.retval, AdtVal) and o.retval.vname == "Err"):
                wrote_any_all = False
            for e in evs:
                if id(e) in done_ev:
                    continue
                done_ev.add(id(e))
                site = find_site(idx, e["span"])
                if site is None:
                    continue
                sites_seen.add((site["span"]["file"], site["span"]["lo"][0], site["span"]["lo"][1]))
                prev = ""
                slots = arg_slots(site)
                for pi, pc in enumerate(site["pieces"]):
                    if isinstance(pc, str):
                        prev = pc
                        continue
                    ai = slots[pi]
                    if ai < 0 or ai >= len(e["args"]):
                        continue
                    tr, ty, v = e["args"][ai]
                    d = deps_of(v)
                    if isinstance(v, Choice):
                        d = d | decode.choice_atoms(v)
                    kw, fields = keyword_of(prev)
                    prev_for_msg = prev.strip()
                    prev = ""
                    # identity of the printed field when it is borrowed in place from the frame (also decides fieldless enums,
                    # whose value carries no bit provenance once the path is fixed)
                    lp = None
                    if ai < len(e.get("locs") or ()):
                        lp = loc_field_path(prog, p.frame, ip.frame_cell, e["locs"][ai])
                    lp = [x for x in (lp or []) if not x.isdigit()]
                    if lp and kw is not None and kw not in ("icao address", "address"):
                        n_loc += 1
                        if not (set(lp) & fields):
                            rep.violation("R1", "label:%s:%s" % (kw.replace(" ", "-"), lp[-1]),
                                          "%s: the value printed after the label '%s' is the field %s, not %s" % (label, prev_for_msg, ".".join(lp), "/".join(sorted(fields))))
                            continue
                    if not d:
                        continue
                    n_ph += 1
                    rep.instance(r1, "%s|%s|%s" % (label, site["span"].get("cs_lo", site["span"]["lo"])[0], ai),
                                 sample={"frame": label, "label": prev_for_msg, "bits": rng_str(d)} if n_ph in (3, 60) else None)
                    if kw is None:
                        continue
                    if kw in ("icao address", "address"):
                        rep.instance(r2, "%s|%s" % (label, kw))
                        want_crc = dfid in (0, 4, 5, 16, 20, 21) or dfid >= 24
                        is_crc = d == crc_atoms and len(d) >= 56
                        is_announced = d == frozenset(range(8, 32))
                        if want_crc and not is_crc:
                            rep.violation("R2", "address-source:%s" % label.split("/")[0], "%s prints %s as the address; this format's address is the checksum (parity overlaid with the address)" % (label, rng_str(d)))
                        if not want_crc and not is_announced and "Capability::Reserved" not in label:
                            rep.violation("R2", "address-source:%s" % label.split("/")[0], "%s prints %s as the address; the announced address is f[8..32)" % (label, rng_str(d)))
                        continue
                    # which decoded fields does the printed value consist of?
                    cand = by_atoms.get(frozenset(d))
                    names = set()
                    if cand:
                        names = {leaf_name(l) for l in cand}
                    else:
                        cover = [l for l in leaves if l.atoms and l.atoms <= d]
                        un = frozenset().union(*[l.atoms for l in cover]) if cover else frozenset()
                        if un == d:
                            names = {leaf_name(l) for l in cover}
                    if not names:
                        # derived value (e.g. velocity components): accept only the documented derived labels
                        continue
                    top_names = set()
                    for l in (cand or cover):
                        top_names.update(x for x in l.path if not x.isdigit())
                    if not (names & fields) and not (top_names & fields):
                        rep.violation("R1", "label:%s:%s" % (kw.replace(" ", "-"), "+".join(sorted(names))[:60]),
                                      "%s: the value printed after the label '%s' is the field %s (%s), not %s" % (label, prev_for_msg, "+".join(sorted(names)), rng_str(d), "/".join(sorted(fields))))
        rep.instance(r5, label, sample={"frame": label, "paths": len(outs)} if label == "DF::AllCallReply" else None)
        if not wrote_any_all and p.variant != "ExtendedQuitterMilitaryApplication":
            rep.violation("R5", "empty-report:%s" % label, "%s renders an empty report on some path" % label)
    rep.floor("placeholders with decoded values", 150, n_ph)
    rep.floor("format sites exercised", 60, len(sites_seen))
    rep.floor("labelled placeholders identified by field location", 20, n_loc)


ENUM_WORDS = {
    "adsb_deku::FlightStatus": {"NoAlertNoSPIAirborne": "airborne?", "NoAlertNoSPIOnGround": "ground?", "AlertNoSPIAirborne": "airborne", "AlertNoSPIOnGround": "ground",
                               "AlertSPIAirborneGround": "airborne?", "NoAlertSPIAirborneGround": "airborne?", "Reserved": "reserved", "NotAssigned": "reserved"},
    "adsb_deku::Capability": {"AG_UNCERTAIN": "uncertain1", "Reserved": "reserved", "AG_GROUND": "ground", "AG_AIRBORNE": "airborne", "AG_UNCERTAIN2": "uncertain2", "AG_UNCERTAIN3": "airborne?"},
    "adsb_deku::CPRFormat": {"Even": "even", "Odd": "odd"},
    "adsb_deku::Sign": {"Positive": "", "Negative": "-"},
    "adsb_deku::adsb::EmergencyState": {"None": "no emergency", "General": "general", "Lifeguard": "lifeguard", "MinimumFuel": "minimum fuel", "NoCommunication": "no communication",
                                        "UnlawfulInterference": "unflawful interference", "DownedAircraft": "downed aircraft", "Reserved2": "reserved2"},
    "adsb_deku::adsb::ControlFieldType": {"ADSB_ES_NT": "(ADS-B)", "ADSB_ES_NT_ALT": "(ADS-B)", "TISB_FINE": "(TIS-B)", "TISB_COARSE": "(TIS-B)", "TISB_MANAGE": "(ADS-R)",
                                          "TISB_ADSB_RELAY": "(TIS-B)", "TISB_ADSB": "(ADS-R)", "Reserved": "(unknown addressing scheme)"},
    "adsb_deku::adsb::VerticalRateSource": {"BarometricPressureAltitude": "barometric", "GeometricAltitude": "GNSS"},
    "adsb_deku::adsb::TypeCoding": {"D": "D", "C": "C", "B": "B", "A": "A"},
}


def enum_words(prog, path):
    """variant name -> sorted list of the string literals its Display writes, by interpreting the Display impl on each variant"""
    adt = prog.adts.get(path)
    fn = None
    for f in prog.fns.values():
        im = f.get("impl")
        if f.get("name") == "fmt" and im and im.get("trait_def") == "core::fmt::Display" and im["self_ty"].get("k") == "adt" and im["self_ty"]["path"] == path:
            fn = f
    if adt is None or fn is None:
        return None
    got = {}
    for vv in adt["variants"]:
        ip = entry.new_interp(prog, max_seconds=20, merge_returns=False, fmt_infallible=True)
        st = State()
        val = AdtVal(path, vv["idx"], [Top(f_["ty"]) for f_ in vv["fields"]], vname=vv["name"])
        outs = ip.run_function(fn, [RefVal(st.new_heap(val), False), RefVal(st.new_heap(Opaque.make("formatter")), True)], st)
        words = set()
        for o in outs:
            for e in o.events:
                if e["kind"] == "write_fmt":
                    for tr, ty, v in e["args"]:
                        if isinstance(v, Opaque) and v.kind == "str":
                            words.add(v.get("s"))
                elif e["kind"] == "write_str" and isinstance(e.get("s"), str):
                    words.add(e["s"])
        got[vv["name"]] = sorted(words)
    return got


def enum_rule(rep, prog):
    rid = rep.rule("R4", "each enum's Display maps every variant to the documented word")
    n = 0
    for path, want in sorted(ENUM_WORDS.items()):
        got = enum_words(prog, path)
        if got is None:
            rep.violation("R4", "anchor:%s" % path, "enum %s or its Display impl not found" % path)
            continue
        for name, words in got.items():
            n += 1
            rep.instance(rid, "%s::%s" % (path, name), sample={"variant": "%s::%s" % (path.split("::")[-1], name), "word": words} if n in (1, 20) else None)
        bad = {k: (got.get(k), w) for k, w in want.items() if got.get(k) != [w]}
        extra = set(got) - set(want)
        if bad or extra:
            k = sorted(bad)[0] if bad else sorted(extra)[0]
            rep.violation("R4", "enum-word:%s::%s" % (path.split("::")[-1], k), "%s::%s is rendered as %s, documented word is %r" % (path.split("::")[-1], k, got.get(k), want.get(k)))
    rep.floor("enum variants rendered", 30, n)


class _P:
    pass


def _with_facts(p, extra):
    q = _P()
    q.__dict__.update({k: getattr(p, k) for k in ("facts", "frame", "df", "crc", "ids", "leaves", "variant", "label")})
    q.facts = tuple(p.facts) + tuple(extra)
    return q


def guard_rule(rep, prog, oks):
    rid = rep.rule("R3", "optional lines appear exactly under their stated conditions (altitude > 0, heading-valid flag, ACAS/mode flags, vertical rate > 0, L/W != 0, HRD, velocity available)")
    idx = site_index(prog)
    reps = tracker.representative_paths(oks)
    # (frame label prefix, keyword in literal, atoms of the flag, value(s) of the flag under which the line must appear)
    FLAG_LINES = [
        ("DF::ADSB/ME::TargetStateAndStatusInformation", "target heading", [61], {1}),
        ("DF::ADSB/ME::TargetStateAndStatusInformation", "acas:              operational", [84], {1}),
        ("DF::ADSB/ME::TargetStateAndStatusInformation", "not operational", [84], {0}),
        ("DF::ADSB/ME::AircraftOperationStatus/OperationStatus::Airborne", "magnetic north", [85], {1}),
        ("DF::ADSB/ME::AircraftOperationStatus/OperationStatus::Airborne", "true north", [85], {0}),
        ("DF::ADSB/ME::AircraftOperationStatus/OperationStatus::Surface", "l/w=", [52, 53, 54, 55], set(range(1, 16))),
        ("DF::ADSB/ME::AirborneVelocity/AirborneVelocitySubType::AirspeedDecoding", "baro rate", list(range(69, 78)), set(range(1, 512))),
    ]
    # operational-mode words of the operational status report: each word appears exactly when its own flag bit is set
    for kind in ("Airborne", "Surface"):
        lab = "DF::ADSB/ME::AircraftOperationStatus/OperationStatus::%s" % kind
        FLAG_LINES += [(lab, " tcas", [58], {1}), (lab, " ident_switch_active", [59], {1}), (lab, " atc", [60], {1}), (lab, " saf", [61], {1}),
                       (lab, " sda=", [62, 63], {1, 2, 3})]
    # mode words of the target-state report's ACAS line: each appears exactly when ACAS is operational and its own decoded flag is set
    # (the flags' bit positions are taken from the decode model: this rule is about rendering what was decoded)
    tss = reps.get("DF::ADSB/ME::TargetStateAndStatusInformation")
    if tss is not None:
        bit_of = {l.path[-1]: sorted(l.atoms) for l in tss.leaves if len(l.atoms) == 1}
        for field, word in (("autopilot", "autopilot"), ("vnac", "vnav"), ("alt_hold", "altitude-hold"), ("approach", " approach")):
            if field in bit_of and "tcas" in bit_of:
                FLAG_LINES.append(("DF::ADSB/ME::TargetStateAndStatusInformation", word, bit_of[field] + bit_of["tcas"], {3}))
            else:
                rep.violation("R3", "anchor:tss-flag:%s" % field, "target state report: decoded flag %s / tcas not found as single-bit fields" % field)
    n = 0
    for prefix, kw, atoms, when in FLAG_LINES:
        p = reps.get(prefix)
        if p is None:
            if getattr(rep, "no_floors", False):
                continue        # alternate pass of the thorough tier: this kind has no further grammar path
            rep.violation("R3", "anchor:%s" % prefix, "frame kind %s not found in the decode model" % prefix)
            continue
        width = len(atoms)
        tests = sorted({0, 1, (1 << width) - 1, (1 << (width - 1))} & set(range(1 << width)))
        for val in tests:
            # pin the flag to `val` and every other payload bit to 0 so that exactly one rendering path remains
            extra = []
            for a in range(40, 88):
                if a in atoms:
                    bit = (val >> (width - 1 - atoms.index(a))) & 1
                    extra.append(("lin", 1 << a, bit))
                else:
                    extra.append(("lin", 1 << a, 0))
            outs = []
            for cand in [q for q in oks if q.label == prefix]:
                pp = _with_facts(cand, extra)
                try:
                    ip, outs = run_fmt(prog, pp, merge=True)
                except ValueError:
                    outs = []
                if outs:
                    break
            present = False
            for o in outs:
                for e in o.events:
                    if e["kind"] == "write_fmt":
                        site = find_site(idx, e["span"])
                        # the text written: the literal pieces of the format string and any string arguments
                        texts = [pc for pc in (site["pieces"] if site else []) if isinstance(pc, str)]
                        texts += [a[2].get("s") for a in e["args"] if isinstance(a[2], Opaque) and a[2].kind == "str" and isinstance(a[2].get("s"), str)]
                        if any(kw in t.lower() for t in texts):
                            present = True
                    elif e["kind"] == "write_str" and isinstance(e.get("s"), str) and kw in e["s"].lower():
                        present = True
            n += 1
            rep.instance(rid, "%s|%s|%d" % (prefix, kw, val), sample={"frame": prefix, "line": kw, "flag_value": val, "present": present} if n in (1, 9) else None)
            if not outs:
                rep.violation("R3", "guard:%s:no-path" % kw.strip().replace(" ", "-"), "%s: no rendering path with %s = %d" % (prefix, rng_str(atoms), val))
            elif present != (val in when):
                rep.violation("R3", "guard:%s:%s" % (kw.strip().replace(" ", "-"), "extra" if present else "missing"),
                              "%s: with %s = %d the line '%s' is %s" % (prefix, rng_str(atoms), val, kw, "printed although its condition does not hold" if present else "missing although its condition holds"))
    # altitude lines of DF0/4/16: present iff the decoded altitude is non-zero
    for lab, kw in (("DF::ShortAirAirSurveillance", "altitude:"), ("DF::SurveillanceAltitudeReply", "altitude:"), ("DF::LongAirAir", "baro altitude:")):
        p = reps.get(lab)
        if p is None:
            continue
        ip, outs = run_fmt(prog, p)
        _st0 = State()
        for f in p.facts:
            _st0.pc.apply_fact(f)
        base_len = len(_st0.pc.log)
        fields = [l for l in p.leaves if "adsb_deku::AC13Field" in l.adts]
        for o in outs:
            frame = None
            for v in o.heap.values():
                if isinstance(v, AdtVal) and v.path == "adsb_deku::Frame":
                    frame = v
            alt = None
            if frame is not None:
                for l in decode.flatten(prog, frame.fields[0], ("df",)):
                    if "adsb_deku::AC13Field" in l.adts:
                        alt = l.value
            present = False
            for e in o.events:
                if e["kind"] == "write_fmt":
                    site = find_site(idx, e["span"])
                    if site and any(isinstance(pc, str) and kw in pc.lower() for pc in site["pieces"]):
                        present = True
            n += 1
            if n <= 800:
                rep.instance(rid, "%s|altitude|%d" % (lab, n))
            if isinstance(alt, IntVal):
                if alt.is_const() and alt.lo == 0 and present:
                    rep.violation("R3", "guard:altitude-line:%s:zero" % lab, "%s prints an altitude line although the decoded altitude is 0 (= none)" % lab)
                if alt.lo > 0 and not present:
                    rep.violation("R3", "guard:altitude-line:%s:missing" % lab, "%s omits the altitude line although the decoded altitude is positive" % lab)
                # the line's presence must be decided by a test of the decoded altitude itself on every path: present under a
                # positive outcome (> 0 / != 0 / >= 1), absent under the complementary one - never without looking at the altitude
            alt_atoms = frozenset()
            if isinstance(alt, Choice):
                alt_atoms = decode.choice_atoms(alt) | deps_of(alt)
            elif isinstance(alt, IntVal) and not alt.is_const():
                alt_atoms = alt.deps
            if True:
                if alt_atoms:
                    # facts the rendering added to the path (beyond the decode path's own) that speak about the altitude bits only:
                    # a comparison guard, or the condition of the altitude alternative the path selected (metric / illegal -> 0, ...)
                    from ..ai.pathcond import facts_atoms
                    added = list(o.pc.log[base_len:])
                    tests = [f for f in added if facts_atoms([f]) and facts_atoms([f]) <= alt_atoms]
                    other = [f for f in added if facts_atoms([f]) and not (facts_atoms([f]) <= alt_atoms) and f[0] == "guard"]
                    if not tests:
                        rep.violation("R3", "guard:altitude-line:%s:%s" % (lab, "untested-present" if present else "untested-absent"),
                                      "%s %s the altitude line on a path that never looked at the decoded altitude (the line depends on something other than altitude > 0)" % (lab, "prints" if present else "omits"))
    # airborne position reports: the altitude shown is the decoded one - on every rendering path of a frame whose altitude decoded to
    # Some(a), `a` itself is printed (no rendering-time condition may replace it by something else); with None, the word None is
    for lab, p in sorted(reps.items()):
        if "ME::AirbornePosition" not in lab or not (lab.endswith("/Option::Some") or lab.endswith("/Option::None")):
            continue
        some = lab.endswith("/Option::Some")
        alt_atoms = frozenset()
        for l in p.leaves:
            if "adsb_deku::Altitude" in l.adts and "alt" in l.path and l.atoms:
                alt_atoms = frozenset(l.atoms)
        if some and not alt_atoms:
            continue
        ip, outs = run_fmt(prog, p)
        for o in outs:
            shown = False
            none_word = False
            for e in o.events:
                if e["kind"] != "write_fmt":
                    continue
                for _tr, _ty, v in e["args"]:
                    d = deps_of(v)
                    # the decoded altitude's own bits (the Q / M selector bits of the code belong to the field but not to every
                    # alternative's value)
                    if some and d and d <= alt_atoms and len(d) >= len(alt_atoms) - 2:
                        shown = True
                    if any("none" in t.lower() for t in _strs_in(v)):
                        none_word = True
                site = find_site(idx, e["span"])
                if site and any(isinstance(pc, str) and "none" in pc.lower() for pc in site["pieces"]):
                    none_word = True
            n += 1
            rep.instance(rid, "%s|altitude-shown|%d" % (lab, n))
            if some and not shown:
                rep.violation("R3", "position-altitude:%s:not-shown" % lab.split("/")[1], "%s: a rendering path does not print the decoded altitude (%s) although it is present%s"
                              % (lab, rng_str(alt_atoms), "; it prints None instead" if none_word else ""))
            if not some and not none_word:
                rep.violation("R3", "position-altitude:%s:none-not-shown" % lab.split("/")[1], "%s: a rendering path of a report without altitude does not print None" % lab)
    # velocity: report vs "Invalid packet"
    lab = "DF::ADSB/ME::AirborneVelocity/AirborneVelocitySubType::GroundSpeedDecoding"
    p = reps.get(lab)
    if p is not None:
        ip, outs = run_fmt(prog, p)
        seen = set()
        for o in outs:
            texts = []
            for e in o.events:
                if e["kind"] == "write_fmt":
                    site = find_site(idx, e["span"])
                    if site:
                        texts.append(" ".join(pc.lower() for pc in site["pieces"] if isinstance(pc, str)))
            has_speed = any("speed:" in t for t in texts)
            has_invalid = any("invalid packet" in t for t in texts)
            seen.add((has_speed, has_invalid))
            n += 1
            if has_speed == has_invalid:
                rep.violation("R3", "guard:velocity-lines", "ground-speed report prints %s" % ("both the velocity lines and 'Invalid packet'" if has_speed else "neither the velocity lines nor 'Invalid packet'"))
        if seen != {(True, False), (False, True)}:
            rep.violation("R3", "guard:velocity-lines:coverage", "expected both a path with the velocity lines and a path with 'Invalid packet' (no-information report); got %s" % sorted(seen))
    rep.floor("guarded-line outcomes", 20, n)


def run(rep, tier, replay=None):
    prog = facts.load("std")
    run_, oks, errs = decode_paths(prog, 14)
    tracker.alt_passes(rep, tier, oks, lambda: render_rules(rep, prog, oks))
    enum_rule(rep, prog)
    tracker.alt_passes(rep, tier, oks, lambda: guard_rule(rep, prog, oks))
    rep.assume("byte-exact output (fmt machinery, float formatting, whitespace) is NOT decided; label wording around the class keyword is free")
    rep.assume("enum word table frozen from the README / test-suite strings")
    return rep.finish(
        "<Frame as Display>::fmt (and everything it reaches: ME::to_string, nested Display impls) is interpreted abstractly on every decoded frame kind from "
        "the decode model; every write is linked to its format site (AST FormatArgs: literal pieces and placeholders) and every printed argument to the frame "
        "bits it derives from. R1: label class vs the decoded field with exactly that bit provenance. R2: address source per format. R3: presence of optional "
        "lines vs the path's condition bits. R4: enum variant -> word maps by running each Display on each variant. R5: non-empty report on every path.")
