"""C07 - airborne velocity: fields and derived track, ground speed and vertical rate."""
import math
from fractions import Fraction

from .. import facts, decode
from ..ai import entry
from ..ai.interp import State
from ..ai.pathcond import eval_fact
from ..ai.values import AdtVal, Choice, FloatVal, IntVal, RefVal, TupleVal
from ..ref import layout as L
from .common import decode_paths, is_identity, rng_str, tile, tabulate, restrict_facts, eval_int
from .c10 import payload_name, aligned, payload_key

ME_ADT = "adsb_deku::adsb::ME"


def velocity_paths(oks):
    out = {}
    for p in oks:
        if aligned(p) and p.ids[0] == 17 and "ME::AirborneVelocity" in p.label:
            sub = p.label.split("AirborneVelocitySubType::")[-1]
            out.setdefault(sub, []).append(p)
    return out


def layout_rule(rep, prog, vp):
    rid = rep.rule("R1", "type-19 fields read the DO-260B slices (3+5+22+1+1+9+2+1+7 bits; sub-structure chosen by the subtype) MSB first")
    for sub, paths in sorted(vp.items()):
        ref = [(n, s, e) for n, (s, e) in L.ME_LAYOUT["AirborneVelocity"] if n != "sub"]
        if sub == "GroundSpeedDecoding":
            ref += [(n, s, e) for n, (s, e) in L.ME_LAYOUT["AirborneVelocity.ground"]]
        elif sub == "AirspeedDecoding":
            ref += [(n, s, e) for n, (s, e) in L.ME_LAYOUT["AirborneVelocity.air"]]
        else:
            ref += [("sub", 45, 67)]
        ref.sort(key=lambda x: x[1])
        merged, order, nonverb = {}, [], {}
        for p in paths:
            for l in p.leaves:
                if ME_ADT not in l.adts:
                    continue
                name = payload_name(l)
                if name not in merged:
                    merged[name] = set()
                    order.append(name)
                merged[name] |= set(l.atoms)
                if l.kind == "int" and l.atoms and l.path[-1] not in ("airspeed", "gnss_baro_diff") and sub in ("GroundSpeedDecoding", "AirspeedDecoding"):
                    a = sorted(l.atoms)
                    if isinstance(l.value, IntVal) and l.value.bits is not None and not is_identity(l, a[0], a[-1] + 1):
                        nonverb[name] = rng_str(l.atoms)
            rep.instance(rid, "%s|%s" % (sub, p.label), sample={"subtype": sub, "fields": order[:12]} if p is paths[0] else None)
        st_vals = sorted(set(v for p in paths for v in decode.id_values(p.facts, range(37, 40))))
        want_st = {"Reserved0": [0], "GroundSpeedDecoding": [1, 2], "AirspeedDecoding": [3, 4], "Reserved1": [5, 6, 7]}.get(sub)
        if st_vals != want_st:
            rep.violation("R1", "%s:subtype-values" % sub, "sub-structure %s is selected by subtype values %s, the standard says %s" % (sub, st_vals, want_st))
        probs = tile([(n, frozenset(merged[n])) for n in order], ref, allow_uncovered={"TC", "reserved"})
        reads = [x for x in probs if not x.startswith("reference field")]
        for pr in (reads or probs):
            rep.violation("R1", "%s:%s" % (sub, pr.split(" ")[0] + ("@" + pr.split(" ")[2] if pr.split(" ")[1] == "reads" else "")),
                          "AirborneVelocity/%s: %s" % (sub, pr))
        for n, r in nonverb.items():
            rep.violation("R1", "%s:%s:not-msb-first" % (sub, n), "AirborneVelocity/%s: field %s is not the bits %s MSB-first" % (sub, n, r))
    rep.floor("velocity sub-structures", 4, len(vp))


def transform_rule(rep, prog, vp):
    rid = rep.rule("R2", "airspeed = raw-1 kt (0 for raw 0) and GNSS-baro difference = (raw-1)*25 ft (0 for raw 0/1... i.e. no information) on every raw value")
    checks = [("airspeed", ["AirspeedDecoding"], lambda N: 0 if N == 0 else N - 1),
              ("gnss_baro_diff", ["GroundSpeedDecoding", "AirspeedDecoding", "Reserved0", "Reserved1"], lambda N: 0 if N <= 1 else (N - 1) * 25)]
    for fname, subs, ref in checks:
        for sub in subs:
            alts, atoms = [], set()
            for p in vp.get(sub, []):
                for l in p.leaves:
                    if l.path[-1] == fname and ME_ADT in l.adts:
                        alts.append((p.facts, l.value))
                        atoms |= set(l.atoms)
            if not alts:
                rep.violation("R2", "%s:%s:anchor" % (sub, fname), "field %s not found in AirborneVelocity/%s" % (fname, sub))
                continue
            table = tabulate(alts, sorted(atoms))
            bad = [(N, v) for N, v in sorted(table.items()) if isinstance(v, tuple) or v != ref(N)]
            rep.instance(rid, "%s.%s" % (sub, fname), sample={"field": fname, "slice": rng_str(atoms), "N=5": str(table.get(5))})
            if bad:
                rep.violation("R2", "%s:%s:transform" % (sub if fname == "airspeed" else "AirborneVelocity", fname),
                              "%s of AirborneVelocity/%s: raw value %d gives %s, the standard says %s (%d raw values differ)"
                              % (fname, sub, bad[0][0], bad[0][1], ref(bad[0][0]), len(bad)))


def fold(t):
    """normal form of a float term: constants folded numerically, commutative operands sorted"""
    if t is None:
        return None
    k = t[0]
    if k == "const":
        return ("c", float(t[1]))
    if k == "int":
        v = t[1]
        return ("int", v.lin.key() if v.lin is not None else repr(v))
    if k == "fcast":
        return fold(t[2])
    if k == "Neg":
        a = fold(t[1])
        return ("c", -a[1]) if a and a[0] == "c" else ("Neg", a)
    if k in ("Add", "Sub", "Mul", "Div"):
        a, b = fold(t[1]), fold(t[2])
        if a is None or b is None:
            return None
        if a[0] == "c" and b[0] == "c":
            try:
                v = {"Add": a[1] + b[1], "Sub": a[1] - b[1], "Mul": a[1] * b[1], "Div": a[1] / b[1]}[k]
                return ("c", v)
            except ZeroDivisionError:
                return None
        if k in ("Add", "Mul"):
            return (k,) + csort([a, b])
        return (k, a, b)
    if k == "call":
        return ("call", t[1]) + tuple(fold(x) for x in t[2:])
    return ("?", repr(t))


def nf_equal(a, b):
    if isinstance(a, tuple) and isinstance(b, tuple):
        if len(a) != len(b):
            return False
        if a and a[0] == "c" and b and b[0] == "c":
            return abs(a[1] - b[1]) <= 1e-9 * max(1.0, abs(a[1]), abs(b[1]))
        return all(nf_equal(x, y) for x, y in zip(a, b))
    return a == b


def csort(items):
    """sort commutative operands with constants first (stable under tiny constant differences)"""
    return tuple(sorted(items, key=lambda x: (0, 0) if (isinstance(x, tuple) and x and x[0] == "c") else (1, repr(x))))


def find_calls(t, name, out):
    if isinstance(t, tuple):
        if len(t) >= 2 and t[0] == "call" and t[1] == name:
            out.append(t)
        for x in t:
            find_calls(x, name, out)
    return out


def calculate_rule(rep, prog, vp):
    r3 = rep.rule("R3", "calculate(): components (raw-1)*sign, track atan2(east, north)*180/pi with +360 below zero, speed hypot(east, north), vertical rate (raw-1)*64*sign")
    r4 = rep.rule("R4", "a report whose east/north velocity or vertical-rate field is 0 ('no information') yields no derived velocity")
    r5 = rep.rule("R5", "supersonic subtypes scale the velocity components by 4")
    fn = prog.fns.get("adsb_deku::adsb::AirborneVelocity::calculate")
    if fn is None:
        rep.violation("R3", "anchor:calculate", "anchor missing: AirborneVelocity::calculate")
        return
    n_some = 0
    for sub, paths in sorted(vp.items()):
        for p in paths[:1]:
            me = None
            for l in p.leaves:
                pass
            adsb = p.df.fields[0]
            me = adsb.fields[2]
            av = me.fields[0]
            ip = entry.new_interp(prog, max_seconds=120, merge_returns=False)
            st = State()
            for f in p.facts:
                st.pc.apply_fact(f)
            n0 = len(st.pc.log)
            ref = RefVal(st.new_heap(av), False)
            outs = ip.run_function(fn, [ref], st)
            somes, nones = [], []
            for o in outs:
                rv = o.retval
                alts = rv.alts if isinstance(rv, Choice) else [((), rv)]
                for d, v in alts:
                    fcts = tuple(o.pc.log) + tuple(d)
                    if isinstance(v, AdtVal) and v.vname == "Some":
                        somes.append((fcts, v.fields[0]))
                    else:
                        nones.append((fcts, v))
            for k, ob in ip.obligations.items():
                if ob["failed"]:
                    rep.violation("R3", "calculate:panic-site:%s" % k.split("|")[2], "possible panic inside calculate(): %s %s" % (k, ob["detail"]))
            rep.instance(r3, "calculate|%s" % sub, sample={"subtype": sub, "some_outcomes": len(somes), "none_outcomes": len(nones)})
            if sub != "GroundSpeedDecoding":
                if somes:
                    rep.violation("R3", "%s:derived-velocity" % sub, "calculate() returns a velocity for the non-ground-speed sub-structure %s" % sub)
                continue
            names = decode.field_names(prog, av)
            gs = av.fields[names.index("sub_type")].fields[0]
            gnames = decode.field_names(prog, gs)
            fld = {n: gs.fields[i] for i, n in enumerate(gnames)}
            atoms = {n: sorted(decode.deps_of(v) | decode.choice_atoms(v) if isinstance(v, Choice) else decode.deps_of(v)) for n, v in fld.items()}
            vr_atoms = sorted(av.fields[names.index("vrate_value")].deps)
            vs = av.fields[names.index("vrate_sign")]
            vs_atoms = sorted(decode.choice_atoms(vs)) if isinstance(vs, Choice) else []
            n_some += len(somes)
            # ---- R4
            for what, at in (("ew_vel", atoms["ew_vel"]), ("ns_vel", atoms["ns_vel"]), ("vrate_value", vr_atoms)):
                zero = {a: 0 for a in at}
                hit = False
                for fcts, _v in somes:
                    rf = restrict_facts(fcts, frozenset(at))
                    if all(eval_fact(f, zero) is not False for f in rf):
                        hit = True
                rep.instance(r4, "zero-%s" % what, sample={"field": what, "slice": rng_str(at), "velocity_returned_for_zero": hit})
                if hit:
                    rep.violation("R4", "calculate:%s=0:returns-velocity" % what,
                                  "calculate() returns Some(..) for a report whose %s field (%s) is 0 = 'no information'" % (what, rng_str(at)))
            # ---- R3 components / R5
            for stv in (1, 2):
                for comp, sign_f, vel_f, pos in (("east", "ew_sign", "ew_vel", 1), ("north", "ns_sign", "ns_vel", 2)):
                    alts = []
                    st_atoms = [37, 38, 39]
                    st_assign = {a: (stv >> (2 - i)) & 1 for i, a in enumerate(st_atoms)}
                    for fcts, tup in somes:
                        if any(eval_fact(f, st_assign) is False for f in restrict_facts(fcts, frozenset(st_atoms))):
                            continue
                        sp = tup.fields[1]
                        calls = find_calls(sp.term, "hypot", []) if isinstance(sp, FloatVal) else []
                        if len(calls) != 1:
                            rep.violation("R3", "calculate:speed:not-hypot", "ground speed is not hypot(east, north): %r" % (sp,))
                            alts = None
                            break
                        arg = calls[0][1 + pos]
                        if not (isinstance(arg, tuple) and arg[0] == "int" and isinstance(arg[1], IntVal)):
                            rep.violation("R3", "calculate:speed:args", "ground speed argument %d is not the integer %s component: %r" % (pos, comp, arg))
                            alts = None
                            break
                        alts.append((fcts, arg[1]))
                    if not alts:
                        continue
                    at = sorted(set(atoms[sign_f]) | set(atoms[vel_f]))
                    table = tabulate(alts, at)
                    nv = len(atoms[vel_f])
                    bad = []
                    for N, v in table.items():
                        # sign atom precedes the velocity atoms in frame order
                        s = (N >> nv) & 1
                        raw = N & ((1 << nv) - 1)
                        if v == ("NONE",):
                            continue
                        want = (raw - 1) * (-1 if s else 1) * (4 if stv == 2 else 1)
                        if v != want:
                            bad.append((raw, s, v, want))
                    if stv == 1:
                        rep.instance(r3, "component-%s" % comp, sample={"component": comp, "slice": rng_str(at), "values": len(table)})
                        if bad:
                            rep.violation("R3", "calculate:%s-component" % comp, "%s component for raw=%d sign=%d is %s, expected %s (%d values differ)" % (comp, bad[0][0], bad[0][1], bad[0][2], bad[0][3], len(bad)))
                    else:
                        rep.instance(r5, "supersonic-%s" % comp, sample={"component": comp, "factor4": not bad})
                        if bad:
                            rep.violation("R5", "calculate:supersonic:%s:no-x4" % comp,
                                          "for the supersonic subtype (st=2) the %s component is not scaled by 4: raw=%d gives %s, expected %s" % (comp, bad[0][0], bad[0][2], bad[0][3]))
            # ---- R3 track formula
            k180 = 180.0 / math.pi
            for fcts, tup in somes:
                hd = tup.fields[0]
                nf = fold(hd.term) if isinstance(hd, FloatVal) else None
                at2 = find_calls(hd.term, "atan2", []) if isinstance(hd, FloatVal) else []
                okk = len(at2) >= 1
                if okk:
                    a, b = at2[0][2], at2[0][3]
                    da = a[1].deps if isinstance(a, tuple) and a[0] == "int" else frozenset()
                    db = b[1].deps if isinstance(b, tuple) and b[0] == "int" else frozenset()
                    okk = bool(da) and bool(db) and da <= set(atoms["ew_sign"]) | set(atoms["ew_vel"]) and db <= set(atoms["ns_sign"]) | set(atoms["ns_vel"])
                core = ("Mul",) + csort([("c", k180), fold(at2[0])]) if at2 else None
                plus = ("Add",) + csort([("c", 360.0), core]) if core else None
                if not okk or not (nf_equal(nf, core) or nf_equal(nf, plus)):
                    rep.violation("R3", "calculate:track-formula", "track is not atan2(east, north)*180/pi (+360 when negative): normal form %s" % (repr(nf)[:400],),
                                  detail={"nf": repr(nf), "core": repr(core), "plus": repr(plus)})
                    break
                # the +360 variant must be guarded by `< 0`
                if nf_equal(nf, plus):
                    g = [f for f in fcts if f[0] == "guard" and f[1].get("float")]
                    if not any(x[1]["op"] == "Lt" and "0.0" in x[1]["b"] for x in g):
                        rep.violation("R3", "calculate:track-wrap-guard", "the +360 wrap is not guarded by `track < 0`")
                        break
            rep.instance(r3, "track-formula", sample={"normal_form": repr(fold(somes[0][1].fields[0].term))[:200] if somes else None})
            # ---- R3 vertical rate
            alts = [(fcts, tup.fields[2]) for fcts, tup in somes]
            at = sorted(set(vs_atoms) | set(vr_atoms))
            table = tabulate(alts, at)
            nv = len(vr_atoms)
            bad = []
            for N, v in table.items():
                s = (N >> nv) & 1
                raw = N & ((1 << nv) - 1)
                if v == ("NONE",):
                    continue
                want = (raw - 1) * 64 * (-1 if s else 1)
                if v != want:
                    bad.append((raw, s, v, want))
            rep.instance(r3, "vertical-rate", sample={"slice": rng_str(at), "values": len(table)})
            if bad:
                rep.violation("R3", "calculate:vertical-rate", "vertical rate for raw=%d sign=%d is %s, expected %s" % bad[0])
    rep.floor("calculate Some outcomes", 2, n_some)


def run(rep, tier, replay=None):
    prog = facts.load("std")
    run_, oks, errs = decode_paths(prog, 14)
    vp = velocity_paths(oks)
    layout_rule(rep, prog, vp)
    transform_rule(rep, prog, vp)
    calculate_rule(rep, prog, vp)
    from .common import enum_tables_rule
    enum_tables_rule(rep, prog, "R6", ["adsb_deku::Sign", "adsb_deku::adsb::DirectionEW", "adsb_deku::adsb::DirectionNS", "adsb_deku::adsb::StatusForGroundTrack"],
                     "direction / sign bits: 0 selects the positive (east, north, up, above) meaning, 1 the negative one")
    rep.assume("the naming of the vertical-rate source bit (bit 1 rendered as GNSS) is pinned by the repository's own test vectors and is not compared with DO-260B")
    rep.assume("f32/f64 rounding of track and speed is not decided: formulas are compared as normal forms, integer parts as exact tables")
    return rep.finish(
        "R1: type-19 fields and the subtype-selected sub-structure read the DO-260B slices MSB-first (from the decode model). R2: airspeed and "
        "GNSS-baro difference tabulated over every raw value. R3-R5: AirborneVelocity::calculate is interpreted abstractly on the decoded value "
        "(field invariants from decoding): integer velocity components and vertical rate are tabulated over every raw value and sign, the track and "
        "speed formulas are compared as normal forms (atan2 argument order, 180/pi factor, +360 wrap guarded by <0, hypot), no-information zeros must "
        "yield None, supersonic subtype must scale by 4.")
