"""C06 - every 13-bit and 12-bit altitude code decodes to its Annex 10 altitude."""
from .. import facts, decode
from ..ai import entry
from ..ai.interp import State
from ..ai.pathcond import eval_fact
from ..ai.values import AdtVal, Choice, IntVal, UNIT
from ..ref import tables as T
from .common import decode_paths, rng_str, tabulate, restrict_facts

AC13 = "<adsb_deku::AC13Field as deku::DekuReader<'_>>::from_reader_with_ctx"
ALT = "<adsb_deku::Altitude as deku::DekuReader<'_>>::from_reader_with_ctx"


def outcomes(prog, path, bitpos, nbytes):
    ip, outs = entry.run_reader_fn(prog, path, nbytes, bitpos, [UNIT], max_seconds=120)
    alts = []
    events = []
    for o in outs:
        rv = o.retval
        base = tuple(o.pc.log)
        events.extend(o.events)
        for d, v in (rv.alts if isinstance(rv, Choice) else [((), rv)]):
            f2, v2 = decode.hoist(v)
            alts.append((base + tuple(d) + f2, v2))
    return ip, alts, events


_PROG = [None]


def expand_field(alts, getter):
    """[(facts, value)] for one field, expanding a Choice stored in the field"""
    out = []
    for fcts, v in alts:
        if not decode.is_ok(v):
            out.append((fcts, ("ERR",)))
            continue
        x = getter(v.fields[0])
        # expand every choice, also those nested inside the value (e.g. Some(<choice of numbers>))
        for d, y in decode.expand_paths(_PROG[0], x, lambda _p, _c: True):
            out.append((tuple(fcts) + tuple(d), y))
    return out


def position_rule(rep, prog, oks):
    rid = rep.rule("R1", "AC13 is f[19..32) in DF0/4/16/20 and AC12 is f[40..52) in airborne position reports (types 9-18, 20-22)")
    n = 0
    for p in oks:
        if "Capability::Reserved" in p.label:
            continue
        for l in p.leaves:
            if "adsb_deku::AC13Field" in l.adts:
                n += 1
                rep.instance(rid, "%s|%s" % (p.variant, ".".join(l.path[2:])), sample={"df": p.variant, "slice": rng_str(l.atoms)})
                if l.atoms and (min(l.atoms) != 19 or max(l.atoms) != 31):
                    rep.violation("R1", "%s:AC13@%s" % (p.variant, rng_str(l.atoms)), "DF::%s: the 13-bit altitude code is read from %s, not f[19..32)" % (p.variant, rng_str(l.atoms)))
            if l.path[-1] in ("alt", "0") and "adsb_deku::Altitude" in l.adts and ("alt" in l.path) and p.ids[0] == 17:
                if l.atoms:
                    n += 1
                    rep.instance(rid, "%s|alt" % p.label, sample={"path": p.label, "slice": rng_str(l.atoms)})
                    if min(l.atoms) != 40 or max(l.atoms) != 51:
                        rep.violation("R1", "Altitude:AC12@%s" % rng_str(l.atoms), "%s: the 12-bit altitude code is read from %s, not f[40..52)" % (p.label, rng_str(l.atoms)))
    rep.floor("altitude code carriers", 6, n)


def table_rule(rep, prog, rid, name, alts, atoms, ref, events, nonevalue):
    table = tabulate(alts, atoms)
    bad = []
    for N in range(1 << len(atoms)):
        got = table[N]
        want = ref(N)
        if isinstance(got, tuple) and got and got[0] == "Some":
            got = got[1]
        elif isinstance(got, tuple) and got and got[0] == "unit":
            got = None
        if want is None:
            want = nonevalue
        if got is None and nonevalue is None and want is None:
            continue
        if got != want:
            bad.append((N, got, want))
    rep.instance(rid, "%s-table" % name, sample={"reader": name, "codes": len(table), "example": {hex(0x3f0): str(table.get(0x3f0))}})
    for N in range(1 << len(atoms)):
        rep.rules[rid]["instances"] += 0
    rep.rules[rid]["instances"] += (1 << len(atoms)) - 1
    rep.rules[rid]["nontrivial"].update("%s-code-%d" % (name, N) for N in range(1, 1 << len(atoms), 97))
    if not bad:
        return
    # attribute to lossy narrowing casts when the table is inexact there
    narrow = [e for e in events if e["kind"] == "narrow" and e.get("lin") is not None]
    lossy = []
    if narrow:
        n = len(atoms)
        for N, got, want in bad:
            assign = {a: (N >> (n - 1 - i)) & 1 for i, a in enumerate(atoms)}
            for e in narrow:
                rf = restrict_facts(e["facts"], frozenset(atoms))
                if all(eval_fact(f, assign) is not False for f in rf):
                    v = e["lin"].eval(assign)
                    if v > 0xFFFF or v < 0:
                        lossy.append((N, v, want, e))
                        break
    lossy_codes = set(x[0] for x in lossy)
    if lossy:
        N, v, want, e = lossy[0]
        sp = e.get("site") or {}
        rep.violation("R2", "%s:narrowing-cast:%s->%s" % (name, e["src"], e["to"]),
                      "%s: %d code(s) decode to an altitude that does not fit the result type and are narrowed with a wrapping cast instead of being reported "
                      "as 'no altitude', e.g. code %#06x -> %d ft is returned as %d (expected %s)" % (name, len(lossy_codes), N, v, v & 0xFFFF, want),
                      site="%s:%s" % (sp.get("file"), (sp.get("lo") or [0])[0]) if sp else None,
                      detail={"codes": [hex(x[0]) for x in lossy[:20]]})
    rest = [b for b in bad if b[0] not in lossy_codes]
    if rest:
        N, got, want = rest[0]
        rep.violation("R2", "%s:table-mismatch" % name,
                      "%s: %d code(s) decode differently from Annex 10, e.g. code %#06x gives %s, expected %s" % (name, len(rest), N, got, want),
                      detail={"first": [(hex(a), str(b), str(c)) for a, b, c in rest[:20]]})


def run(rep, tier, replay=None):
    prog = facts.load("std")
    _PROG[0] = prog
    run_, oks, errs = decode_paths(prog, 14)
    position_rule(rep, prog, oks)
    rid = rep.rule("R2", "the value decoded from every 13-bit / 12-bit code equals the Annex 10 altitude (25N-1000 with Q, Gillham otherwise; 0/None for all-zero, metric, illegal or unrepresentable codes)")
    if AC13 not in prog.fns or ALT not in prog.fns:
        rep.violation("R2", "anchor", "anchor missing: DekuReader impl of AC13Field / Altitude")
    else:
        ip, alts, events = outcomes(prog, AC13, 19, 7)
        f13 = expand_field(alts, lambda v: v.fields[0])
        table_rule(rep, prog, rid, "AC13Field", f13, list(range(19, 32)), T.ac13_altitude, events, 0)
        for k, ob in ip.obligations.items():
            if ob["failed"]:
                rep.violation("R2", "AC13Field:panic-site:%s" % k.split("|")[2], "possible panic while decoding an altitude code: %s %s" % (k, ob["detail"]))
        ip2, alts2, events2 = outcomes(prog, ALT, 32, 14)
        names = None
        def get_alt(v):
            nm = decode.field_names(prog, v)
            return v.fields[nm.index("alt")]
        f12 = expand_field(alts2, get_alt)
        table_rule(rep, prog, rid, "Altitude.alt", f12, list(range(40, 52)), T.ac12_altitude, events2, None)
        for k, ob in ip2.obligations.items():
            if ob["failed"]:
                rep.violation("R2", "Altitude:panic-site:%s" % k.split("|")[2], "possible panic while decoding an altitude code: %s %s" % (k, ob["detail"]))
    rep.assume("Gillham reference: 500-ft ring D2 D4 A1 A2 A4 B1 B2 B4, 100-ft ring C1 C2 C4 (7->5 fold, reflected on odd rings), offset -1300 ft (analysis/ref/tables.py)")
    return rep.finish(
        "The readers of AC13Field and Altitude are interpreted abstractly with the code's 13/12 bits as atoms (GF(2)-affine bit provenance through the "
        "de-interleaver and Gray decoder, exact integer-linear forms through the scalings, partitions on the few-bit legality tests). The extracted "
        "closed-form summary (path conditions + result forms) is tabulated over all 8192 / 4096 codes and compared with the Annex 10 reference "
        "table; lossy narrowing casts are attributed separately. Exhaustive over the code space.")
