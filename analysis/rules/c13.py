"""C13 - tracker publishes only plausible CPR positions and clears stale pairs."""
from .. import facts, decode, terms as T
from ..ai.values import AdtVal, ArrayVal, Choice, FloatVal, IntVal, Opaque, Top, fp
from .common import decode_paths
from . import tracker


def tags_of(v):
    return getattr(v, "tags", frozenset()) or frozenset()


def is_none(v):
    return isinstance(v, AdtVal) and v.path == "core::option::Option" and v.variant == 0


def is_some(v):
    return isinstance(v, AdtVal) and v.path == "core::option::Option" and v.variant == 1


def term_syms(t, out=None):
    out = set() if out is None else out
    if isinstance(t, tuple):
        if len(t) == 2 and t[0] == "sym":
            out.add(t[1])
        for x in t:
            term_syms(x, out)
    return out


def haversine_refs(p1=("receiver_lat", "receiver_lon"), p2=("cpr_lat", "cpr_lon")):
    """accepted normal forms of the great-circle distance (km) between (lat1,lon1)=p1 (receiver) and (lat2,lon2)=p2 (candidate)"""
    S, C, M, A, Sb, D, call = T.S, T.C, T.M, T.A, T.Sb, T.D, T.call
    la1, lo1, la2, lo2 = (call("to_radians", S(p1[0])), call("to_radians", S(p1[1])),
                          call("to_radians", S(p2[0])), call("to_radians", S(p2[1])))
    sl = call("sin", D(Sb(la2, la1), C(2)))
    so = call("sin", D(Sb(lo2, lo1), C(2)))
    a = A(M(sl, sl), M(M(call("cos", la1), call("cos", la2)), M(so, so)))
    forms = [M(C(6371), M(C(2), call("atan2", call("sqrt", a), call("sqrt", Sb(C(1), a))))),
             M(C(6371), M(C(2), call("asin", call("sqrt", a))))]
    return [T.nf(f) for f in forms]


def analyse(rep, prog, oks):
    r1 = rep.rule("R1", "the new report replaces the slot of its own parity and is paired with the stored report of the other parity; nothing else of the record enters the candidate")
    r2 = rep.rule("R2", "whenever the candidate is rejected (beyond max range, or more than 100 km from the previous position) the whole position record is cleared; a position is published only when both tests pass")
    r3 = rep.rule("R3", "the published position is the pairing result and the published distance is the great-circle distance (R = 6371 km) from the receiver to it")
    reps = tracker.representative_paths(oks)
    labels = [l for l in reps if l.startswith(("DF::ADSB/ME::AirbornePosition", "DF::TisB/ME::AirbornePosition")) and l.endswith("Option::Some")]
    href = haversine_refs()
    prev = ("existing:position.latitude", "existing:position.longitude")
    jref = haversine_refs(prev, ("cpr_lat", "cpr_lon")) + haversine_refs(("cpr_lat", "cpr_lon"), prev)
    n_gp = n_false = n_pub = n_jump = n_acc_clear = 0
    seen_parity = set()
    range_reject = jump_reject = False
    for label in sorted(labels):
        p = reps[label]
        ar = tracker.run_action(prog, p)
        me = p.df.fields[0].fields[2] if p.variant == "ADSB" else p.df.fields[0].fields[2]
        new_atoms = decode.deps_of(me.fields[0]) | frozenset(range(32, 88))
        if not any(e["kind"] == "get_position_call" for o in ar.outs for e in o.events):
            # (a record with both slots filled exists among the explored pre-states, so some path must reach the pairing)
            rep.violation("R1", "pairing:report-ignored:%s" % "/".join(label.split("/")[:2]), "%s: a position report of this kind never reaches the pairing: it is not stored, so the published position is not that of the most recent even and odd reports" % label)
        for o in ar.outs:
            gps = [e for e in o.events if e["kind"] == "get_position_call"]
            rets = [e for e in o.events if e["kind"] == "tagged_return" and e["tag"] == "position_fn"]
            cells = tracker.map_cells(ar.ip, o, ar.planes_loc)
            if len(cells) != 1:
                continue
            state = cells[0][1]
            names = decode.field_names(prog, state)
            coords = state.fields[names.index("coords")]
            cn = decode.field_names(prog, coords) if isinstance(coords, AdtVal) else []
            guards = [f[1] for f in o.pc.log if f[0] == "guard" and f[1].get("float")]
            odd = decode.id_values(tuple(o.pc.log), [53])
            for e in gps:
                n_gp += 1
                a0, a1 = e["args"]
                new_idx = [i for i, a in enumerate((a0, a1)) if isinstance(a, AdtVal) and decode.deps_of(a) and decode.deps_of(a) <= new_atoms
                           and not any(t[0] == "existing" for t in tags_of(a) if isinstance(t, tuple))]
                rep.instance(r1, "%s|parity=%s" % (label, odd), sample={"frame": label, "odd_flag": odd, "args": [repr(a0)[:50], repr(a1)[:50]]} if n_gp == 1 else None)
                if len(new_idx) != 1:
                    rep.violation("R1", "pairing:new-report-count", "%s: the pairing call receives the new report %d times (expected exactly once)" % (label, len(new_idx)))
                    continue
                i = new_idx[0]
                other = (a0, a1)[1 - i]
                want_tag = ("existing", "altitudes[%d]" % (1 - i))
                seen_parity.add((tuple(odd), i))
                if want_tag not in tags_of(other):
                    rep.violation("R1", "pairing:other-slot", "%s: the report paired with the new one is %r, not the stored slot %d" % (label, other, 1 - i))
                if odd == [1] and i != 1 or odd == [0] and i != 0:
                    rep.violation("R1", "pairing:slot-by-parity", "%s: a report with odd flag %s is placed in slot %d" % (label, odd, i))
            if not rets:
                continue
            ret = rets[-1]["value"]
            rv = ret.cval() if isinstance(ret, IntVal) else None
            if rv == 0:
                n_false += 1
                rep.instance(r2, "%s|reject|%s" % (label, [g["op"] for g in guards]))
                cleared = isinstance(coords, AdtVal) and all(
                    (isinstance(f, ArrayVal) and f.elems is not None and all(is_none(x) for x in f.elems)) or is_none(f) for f in coords.fields)
                if not cleared:
                    rep.violation("R2", "reject:not-cleared", "%s: after a rejected candidate the position record is %r instead of the empty record" % (label, coords))
                last = guards[-1] if guards else None
                if last and last["op"] == "Gt":
                    sa, sb = term_syms(last.get("a_term")), term_syms(last.get("b_term"))
                    if "max_range" in sb and {"receiver_lat", "cpr_lat"} <= sa:
                        range_reject = True
                    if last.get("b_const") == 100.0:
                        jump_reject = True
                        n_jump += 1
                        if T.nf(last.get("a_term")) not in jref:
                            rep.violation("R2", "reject:jump-distance-formula", "%s: the 100 km test does not measure the great-circle distance between the previously published position and the candidate: %s"
                                          % (label.split("/")[0], T.show(T.nf(last.get("a_term")), 500)))
            elif rv == 1 and gps:
                res = [e["some"] for e in o.events if e["kind"] == "get_position_result"]
                if res and not res[-1]:
                    rep.violation("R2", "accept:unpairable", "%s: the candidate test returns true on a path where the two stored reports could not be paired into a location, so they stay stored and are paired with later reports" % label.split("/")[0])
                pos = coords.fields[cn.index("position")] if "position" in cn else None
                kd = coords.fields[cn.index("kilo_distance")] if "kilo_distance" in cn else None
                vac = [e["vacant"] for e in o.events if e["kind"] == "map_vacancy"]
                emptied = isinstance(coords, AdtVal) and all(
                    (isinstance(f, ArrayVal) and f.elems is not None and all(is_none(x) for x in f.elems)) or is_none(f) for f in coords.fields)
                if emptied and not (vac and vac[0]):
                    n_acc_clear += 1
                    rep.violation("R2", "accept:record-cleared", "%s: the candidate passed both plausibility tests, yet a path ends with the whole position record emptied (stored reports lost although nothing was implausible)" % label.split("/")[0])
                if is_some(pos) and isinstance(pos.fields[0], AdtVal) and "cpr_lat" in term_syms(getattr(pos.fields[0].fields[0], "term", None)):
                    n_pub += 1
                    rep.instance(r3, "%s|publish|%s" % (label, [g["op"] for g in guards]),
                                 sample={"frame": label, "distance_nf": T.show(T.nf(kd.fields[0].term), 200) if is_some(kd) and isinstance(kd.fields[0], FloatVal) else None} if n_pub == 1 else None)
                    lat, lon = pos.fields[0].fields[0], pos.fields[0].fields[1]
                    if term_syms(lat.term) != {"cpr_lat"} or term_syms(lon.term) != {"cpr_lon"}:
                        rep.violation("R3", "publish:position", "%s: the published position is not the pairing result: %r" % (label, pos))
                    # both plausibility tests must have passed
                    rng = [g for g in guards if "max_range" in term_syms(g.get("b_term")) | term_syms(g.get("a_term"))]
                    if not rng or rng[-1]["op"] not in ("Le",):
                        rep.violation("R2", "publish:range-test", "%s: a position is published on a path without a passed `distance > max_range` test (guards %s)" % (label, [(g["op"], g["b"][:30]) for g in guards]))
                    prev_some = any(("existing", "position") in tags_of(x) for x in [pos]) or False
                    if not (is_some(kd) and isinstance(kd.fields[0], FloatVal) and kd.fields[0].term is not None):
                        rep.violation("R3", "publish:distance-missing", "%s: a position is published without a distance: %r" % (label, kd))
                    else:
                        nfk = T.nf(kd.fields[0].term)
                        if nfk not in href:
                            rep.violation("R3", "distance:formula", "%s: the published distance is not the haversine great-circle distance with R=6371 between the receiver and the published position: %s"
                                          % (label.split("/")[0], T.show(nfk, 700)))
                elif is_none(pos):
                    if not is_none(kd):
                        rep.violation("R3", "publish:distance-without-position", "%s: the record ends with no position but a distance %r" % (label, kd))
    rep.instance(r2, "reject-reasons", sample={"range_reject_seen": range_reject, "jump_reject_seen": jump_reject})
    if getattr(rep, "no_floors", False) and not labels:
        return      # alternate pass of the thorough tier with no further grammar path of these frame kinds
    if not range_reject:
        rep.violation("R2", "reject:range-test-missing", "no path rejects a candidate whose distance from the receiver exceeds max_range (operands: haversine(receiver, candidate) > max_range)")
    if not jump_reject:
        rep.violation("R2", "reject:jump-test-missing", "no path rejects a candidate more than 100 km (constant 100.0, operator >) from the previously published position")
    if {k[1] for k in seen_parity} != {0, 1}:
        rep.violation("R1", "pairing:one-slot-only", "the new report is always placed in the same slot: %s" % sorted(seen_parity))
    rep.floor("pairing call sites explored", 8, n_gp)
    rep.floor("rejecting paths", 4, n_false)
    rep.floor("publishing paths", 4, n_pub)
    rep.floor("jump-rejecting paths", 4, n_jump)
    c = prog.consts.get("rsadsb_common::MAX_AIRCRAFT_DISTANCE")
    if c is None or c["value"].get("bits") != "0x4059000000000000":
        rep.violation("R2", "const:MAX_AIRCRAFT_DISTANCE", "the jump threshold constant is not 100.0 km: %r" % (c["value"] if c else None))


def run(rep, tier, replay=None):
    prog = facts.load("std")
    run_, oks, errs = decode_paths(prog, 14)
    tracker.alt_passes(rep, tier, oks, lambda: analyse(rep, prog, oks))
    # "published": what the views hand out is each record's own position under its own address (C14's view rule, decided here as well)
    from . import c14, c15
    c14.views_rule(c15._Renamed(rep, "V-"), prog)
    rep.assume("cpr::get_position is replaced by a stub yielding None or an arbitrary position (its content is C05); numeric accuracy and threshold behaviour of f64 are not decided")
    rep.assume("the history-level statement (most recent even and odd report since the last clear) follows from R1+R2 by induction, not mechanised")
    return rep.finish(
        "Airplanes::action is interpreted abstractly on airborne-position frames (both parities) against a record with arbitrary tagged content. "
        "R1: arguments of the pairing call = the new report in the slot of its parity + the stored other slot. R2: every path on which the candidate "
        "test returns false ends with the empty record; rejection guards are `haversine(receiver, candidate) > max_range` and `... > 100.0`; publication "
        "only under the negated guards. R3: published position is the pairing result; the distance's polynomial normal form equals the haversine formula with R = 6371.")
