"""C16 - clients treat the feed as a byte stream; survive malformed input and disconnects (structural skeleton)."""
import re

from .. import facts
from ..cfg import cfg_of
from .clients import blocks_calling, calls, panic_sites, site_where, is_external_macro, line_of, ref_target

MAINS = {"radar": "radar::main", "1090": "1090::main"}


_CMPS = {"Eq": lambda a, b: a == b, "Ne": lambda a, b: a != b, "Lt": lambda a, b: a < b, "Le": lambda a, b: a <= b,
         "Gt": lambda a, b: a > b, "Ge": lambda a, b: a >= b}


def read_line_info(fn):
    """block of the read_line call, its buffer local, the blocks of the Ok / Err outcomes and of Ok(len != 0)"""
    rl = [(i, c) for i, p, full, c in calls(fn) if p.endswith("BufRead::read_line")]
    if len(rl) != 1:
        return None
    i, c = rl[0]
    dest = c["dest"]["local"]
    # buffer: second argument is `&mut input` created in this block or passed as a local ref
    arg = c["args"][1]
    al = (arg.get("move") or arg.get("copy") or {}).get("local")
    buf = ref_target(fn, al)
    cfg = cfg_of(fn)
    # discriminant switch on the result
    nxt = c["target"]
    ok_blk = err_blk = None
    seen = set()
    b = nxt
    while b is not None and b not in seen:
        seen.add(b)
        t = fn["blocks"][b]["term"]
        if t and "switch" in t:
            sw = t["switch"]
            tm = {v: tb for v, tb in sw["targets"]}
            # discriminant of the io::Result: 0 = Ok, 1 = Err (either may be the `otherwise` edge)
            if 0 in tm or 1 in tm:
                ok_blk, err_blk = tm.get(0, sw["otherwise"]), tm.get(1, sw["otherwise"])
            break
        b = cfg.succ[b][0] if cfg.succ[b] else None
    # Ok(len): the test that separates an empty read (len == 0) from a non-empty one. Any comparison of len with a constant is
    # accepted; the branch taken is evaluated for len = 0 and for sample non-zero lengths.
    nz_blk = zero_blk = None
    nz_all = []
    if ok_blk is not None:
        # breadth-first from the Ok outcome (through drop-flag and discriminant switches the compiler or a refactoring puts in
        # between) to the first block that compares a value with a constant and branches on it
        from collections import deque
        q = deque([(ok_blk, 0)])
        seen = set()
        while q:
            b, d = q.popleft()
            if b in seen or d > 14 or b == i or fn["blocks"][b]["cleanup"]:
                continue
            seen.add(b)
            blk = fn["blocks"][b]
            t = blk["term"]
            cmpst = None
            if t and "switch" in t:
                for st_ in blk["stmts"]:
                    if "assign" in st_ and "bin" in st_["assign"][1] and st_["assign"][1]["bin"][0] in _CMPS:
                        op, x, y = st_["assign"][1]["bin"]
                        if "const" in y and y["const"].get("int") is not None:
                            cmpst = (op, y["const"]["int"], False)
                        elif "const" in x and x["const"].get("int") is not None:
                            cmpst = (op, x["const"]["int"], True)
            if cmpst:
                sw = t["switch"]
                tm = {v: tb for v, tb in sw["targets"]}

                def tgt(n):
                    op, k, swapped = cmpst
                    r = _CMPS[op](k, n) if swapped else _CMPS[op](n, k)
                    return tm.get(1 if r else 0, sw["otherwise"])
                zero_blk = tgt(0)
                nz_all = sorted(set(tgt(n) for n in (1, 2, 3, 16, 31, 1 << 20)))
                nz_blk = nz_all[0] if nz_all else None
                break
            if t and "call" in t and "path" in t["call"]["callee"]:
                continue        # the length test comes before any further call
            for nb in cfg.succ[b]:
                q.append((nb, d + 1))
    return {"block": i, "buf": buf, "ok": ok_blk, "err": err_blk, "nonzero": nz_blk, "nonzero_all": nz_all, "zero": zero_blk, "dest": dest}


def fresh_empty_string(fn, local, at_block):
    """`local` holds a String that is still empty when block `at_block` runs: it is the result of String::new() (or default / with_capacity)
    and is mutably borrowed nowhere except in / after that block"""
    cfg = cfg_of(fn)
    made = [i for i, p, full, c in calls(fn) if c["dest"]["local"] == local and not c["dest"]["proj"]
            and p in ("alloc::string::String::new", "alloc::string::String::with_capacity", "<alloc::string::String as core::default::Default>::default")]
    if len(made) != 1 or not cfg.dominates(made[0], at_block):
        return False
    for bi, b in enumerate(fn["blocks"]):
        for s_ in b["stmts"]:
            if "assign" in s_ and isinstance(s_["assign"][1], dict) and "ref" in s_["assign"][1]:
                r = s_["assign"][1]["ref"]
                if r["place"]["local"] == local and r.get("mut") and bi != at_block and not cfg.dominates(at_block, bi):
                    return False
            if "assign" in s_ and s_["assign"][0]["local"] == local:
                return False
    return True


def clear_blocks(fn, buf):
    out = []
    for i, p, full, c in calls(fn):
        if p in ("alloc::string::String::clear", "alloc::string::String::truncate", "core::mem::take", "core::mem::replace", "core::mem::swap"):
            tg = []
            for a in c["args"][:2]:
                al = (a.get("move") or a.get("copy") or {}).get("local") if isinstance(a, dict) else None
                tg.append(ref_target(fn, al) if al is not None else None)
            if tg and tg[0] == buf and p != "core::mem::swap":
                out.append(i)
            elif p == "core::mem::swap" and buf in tg and len(tg) == 2:
                other = tg[1] if tg[0] == buf else tg[0]
                # exchanging the buffer with a String that is still empty empties the buffer
                if other is not None and fresh_empty_string(fn, other, i):
                    out.append(i)
    return out


def buffer_rules(rep, prog):
    r1 = rep.rule("R1", "after a complete line (read_line -> Ok(len > 0)) every path to the next read_line empties the line buffer")
    r2 = rep.rule("R2", "after a timed-out / failed read_line (Err) no path to the next read_line empties the buffer (the partial line stays for the next read)")
    for name, path in sorted(MAINS.items()):
        fn = prog.fns.get(path)
        if fn is None:
            rep.violation("R1", "anchor:%s" % path, "anchor missing: %s" % path)
            continue
        info = read_line_info(fn)
        if not info or info["buf"] is None or info["ok"] is None or info["err"] is None or info["nonzero"] is None:
            rep.violation("R1", "anchor:%s:read-loop" % name, "cannot identify the read_line loop of %s (call, buffer and Ok/Err outcomes): %s" % (path, info))
            continue
        cfg = cfg_of(fn)
        clears = clear_blocks(fn, info["buf"])
        rep.instance(r1, name, sample={"client": name, "read_line_block": info["block"], "buffer_local": info["buf"], "clearing_blocks": clears})
        ok, wit = True, []
        for nzb in info.get("nonzero_all") or [info["nonzero"]]:
            # every branch a non-empty read can take (a test such as `len <= 1` sends some complete lines down the empty-read path)
            ok1, wit1 = cfg.all_paths_pass(nzb, [info["block"]], clears)
            if not ok1:
                ok, wit = False, wit1
        if not ok:
            lines = [line_of(fn, b) for b in wit if line_of(fn, b)]
            rep.violation("R1", "%s:complete-line-not-cleared" % name,
                          "%s: a path from a complete line back to read_line skips clearing the buffer (so the next line is appended to the old one): via %s" % (name, _dedup(lines)[-6:]),
                          site=lines[0] if lines else None)
        rep.instance(r2, name, sample={"client": name, "err_block": info["err"]})
        # every path from Err to the next read_line must avoid the clears
        reach = cfg.reachable(info["err"], avoid=[info["block"]])
        hit = [b for b in clears if b in reach and _reaches(cfg, b, info["block"])]
        if hit:
            rep.violation("R2", "%s:partial-line-cleared" % name,
                          "%s: after read_line returned Err (50 ms timeout in the middle of a line) the buffer is emptied at %s before the next read; the rest of the line is then parsed as a line of its own" % (name, line_of(fn, hit[0])),
                          site=line_of(fn, hit[0]))


def _reaches(cfg, a, b):
    return b in cfg.reachable(a)


def _dedup(xs):
    out = []
    for x in xs:
        if not out or out[-1] != x:
            out.append(x)
    return out


# panic sites tolerated between read_line and decode, one reason each (keyed by kind:detail and the callee/expression they belong to)
ALLOW = {
    ("radar", "call:slice-index"): "bytes[0] under --limit-parsing: the all-zero test `bytes.iter().all(..)` is true for an empty vector and continues, so bytes is non-empty here",
    ("radar", "assert:BoundsCheck"): "bytes[0] under --limit-parsing: the all-zero test `bytes.iter().all(..)` is true for an empty vector and continues, so bytes is non-empty here",
}


def guarded_by_all_test(fn, cfg, blk):
    """blk is dominated by the false ("not all elements are zero") target of a switch on the result of an Iterator::all call"""
    for i, p, full, c in calls(fn):
        if not re.search(r"Iterator(<[^>]*>)?>?::all$", p):
            continue
        dest = c["dest"]["local"]
        b = c["target"]
        seen = set()
        while b is not None and b not in seen:
            seen.add(b)
            t = fn["blocks"][b]["term"]
            if t and "switch" in t:
                sw = t["switch"]
                d = sw["discr"].get("move") or sw["discr"].get("copy") or {}
                if d.get("local") == dest or True:
                    tm = {v: tb for v, tb in sw["targets"]}
                    false_t = tm.get(0, sw["otherwise"] if 0 not in tm else None)
                    if false_t is not None and cfg.dominates(false_t, blk):
                        return True
                break
            b = cfg.succ[b][0] if len(cfg.succ[b]) == 1 else None
    return False


def guarded_through_helper(prog, fn, cfg, blk):
    """blk is dominated by the Some-arm of a match on the result of a local helper whose every `Some(..)` is itself built under the
    "not all zero" outcome of an all-zero test (the line-to-bytes conversion extracted into a function)"""
    for i, p, full, c in calls(fn):
        g = prog.fns.get(p)
        if g is None or g["crate"] != fn["crate"]:
            continue
        rty = g["locals"][0]["ty"]
        if not (isinstance(rty, dict) and rty.get("k") == "adt" and rty.get("path") == "core::option::Option"):
            continue
        dest = c["dest"]["local"]
        # the switch on the discriminant of the call's result
        some_t = None
        b = c["target"]
        seen = set()
        while b is not None and b not in seen:
            seen.add(b)
            blk_ = fn["blocks"][b]
            reads_discr = any("assign" in s_ and isinstance(s_["assign"][1], dict) and "discr" in s_["assign"][1] and s_["assign"][1]["discr"].get("local") == dest for s_ in blk_["stmts"])
            t = blk_["term"]
            if t and "switch" in t and reads_discr:
                tm = {v: tb for v, tb in t["switch"]["targets"]}
                some_t = tm.get(1, t["switch"]["otherwise"] if 1 not in tm else None)
                break
            b = cfg.succ[b][0] if len(cfg.succ[b]) == 1 else None
        if some_t is None or not cfg.dominates(some_t, blk):
            continue
        # every Some(..) built in the helper is under the all-zero test's "not all zero" outcome
        gcfg = cfg_of(g)
        somes = []
        for bi, gb in enumerate(g["blocks"]):
            for s_ in gb["stmts"]:
                if "assign" in s_ and isinstance(s_["assign"][1], dict):
                    ag = s_["assign"][1].get("aggregate")
                    if ag and ag.get("kind") == "adt" and ag.get("adt") == "core::option::Option" and ag.get("variant") == 1 and not s_["assign"][0]["proj"] \
                            and s_["assign"][0]["local"] == 0:
                        somes.append(bi)
        if somes and all(guarded_by_all_test(g, gcfg, bi) for bi in somes):
            return True
    return False


def malformed_rule(rep, prog):
    rid = rep.rule("R3", "no panic site lies between read_line and the decode call in either client: line slicing must use non-panicking accessors")
    for name, path in sorted(MAINS.items()):
        fn = prog.fns.get(path)
        if fn is None:
            continue
        info = read_line_info(fn)
        if not info or info["nonzero"] is None:
            continue
        cfg = cfg_of(fn)
        DEC = "adsb_deku::Frame::from_bytes"

        def calls_decode(p, depth=0):
            g = prog.fns.get(p)
            if g is None or g["crate"] != fn["crate"] or depth > 3:
                return False
            return any(cp == DEC or calls_decode(cp, depth + 1) for _i, cp, _full, _c in calls(g))
        # the decode call, directly or inside a workspace helper the line is handed to
        dec = blocks_calling(fn, lambda p, full, c: p == DEC or calls_decode(p))
        if not dec:
            rep.violation("R3", "anchor:%s:decode-call" % name, "%s does not call Frame::from_bytes" % name)
            continue
        fwd = cfg.reachable(info["ok"], avoid=dec + [info["block"]])
        # only blocks from which the decode call is still reachable (the line is being prepared for decoding)
        back = set()
        st = list(dec)
        while st:
            b = st.pop()
            for pr in cfg.pred[b]:
                if pr not in back and pr != info["block"]:
                    back.add(pr)
                    st.append(pr)
        region = fwd & back
        n = 0
        # workspace helpers called while the line is being prepared (the conversion extracted into functions): their panic sites
        # count too - for a helper that itself reaches the decode call, only the part before that call
        helper_sites = []
        for bi in sorted(region | set(dec)):
            t = fn["blocks"][bi]["term"]
            if not (t and "call" in t and "path" in t["call"]["callee"]):
                continue
            hp = t["call"]["callee"].get("resolved") or t["call"]["callee"]["path"]
            g = prog.fns.get(hp)
            if g is None or g["crate"] != fn["crate"] or hp == fn["path"]:
                continue
            gcfg = cfg_of(g)
            gdec = blocks_calling(g, lambda p, full, c: p == DEC or calls_decode(p))
            if gdec:
                gback = set()
                stk = list(gdec)
                while stk:
                    b_ = stk.pop()
                    for pr in gcfg.pred[b_]:
                        if pr not in gback:
                            gback.add(pr)
                            stk.append(pr)
                gregion = gcfg.reachable(0, avoid=gdec) & gback
            else:
                gregion = set(range(len(g["blocks"])))
            for kind, detail, blk, sp in panic_sites(prog, g):
                if blk in gregion and not is_external_macro(sp):
                    helper_sites.append((g, kind, detail, blk, sp))
        for g, kind, detail, blk, sp in helper_sites:
            n += 1
            key = ("%s" % name, "%s:%s" % (kind, detail))
            rep.instance(rid, "%s|%s|%s:%s|%s" % (name, g["path"], kind, detail, site_where(sp)))
            if key in ALLOW:
                if guarded_by_all_test(g, cfg_of(g), blk) or guarded_through_helper(prog, g, cfg_of(g), blk):
                    continue
                # ... or every call of this helper in the client's main is itself under the all-zero test's "not all zero" outcome
                callers = blocks_calling(fn, lambda p, full, c, _gp=g["path"]: p == _gp)
                if callers and all(guarded_by_all_test(fn, cfg, cb) or guarded_through_helper(prog, fn, cfg, cb) for cb in callers):
                    continue
            rep.violation("R3", "%s:%s:%s:%s" % (name, g["path"].rsplit("::", 1)[-1], kind, detail),
                          "%s: a malformed line can panic the client at %s (%s %s in helper %s) before it is skipped" % (name, site_where(sp), kind, detail, g["path"]), site=site_where(sp))
        for kind, detail, blk, sp in panic_sites(prog, fn):
            if blk not in region:
                continue
            if is_external_macro(sp):
                continue
            n += 1
            key = ("%s" % name, "%s:%s" % (kind, detail))
            rep.instance(rid, "%s|%s:%s|%s" % (name, kind, detail, site_where(sp)), sample={"client": name, "site": "%s:%s" % (kind, detail), "at": site_where(sp)})
            if key in ALLOW:
                # the allow-listed reason is structural: the site must be dominated by the "not all zero" outcome of the all-zero
                # test (which is also what rejects an empty vector)
                if guarded_by_all_test(fn, cfg, blk) or guarded_through_helper(prog, fn, cfg, blk):
                    continue
                rep.violation("R3", "%s:%s:%s:unguarded" % (name, kind, detail),
                              "%s: %s %s at %s is no longer preceded on every path by the all-zero test that rejects an empty line, so an empty '*;' line panics the client" % (name, kind, detail, site_where(sp)), site=site_where(sp))
                continue
            rep.violation("R3", "%s:%s:%s" % (name, kind, detail),
                          "%s: a malformed line can panic the client at %s (%s %s) before it is skipped" % (name, site_where(sp), kind, detail), site=site_where(sp))
        rep.instance(rid, "%s|region" % name, sample={"client": name, "blocks_between_read_and_decode": len(region), "panic_sites": n})


def disconnect_rule(rep, prog):
    rid = rep.rule("R4", "radar: Ok(0) marks a TCP disconnect; the tracker variable is created once and only fed through action/prune (kept across a reconnect)")
    fn = prog.fns.get("radar::main")
    if fn is None:
        return
    info = read_line_info(fn)
    cfg = cfg_of(fn)
    if info and info["zero"] is not None:
        # the zero-length outcome must write the quit field before the next read
        wrote = False
        reach = cfg.reachable(info["zero"], avoid=[info["block"]])
        for b in reach:
            for s in fn["blocks"][b]["stmts"]:
                if "assign" in s and s["assign"][0]["proj"] and s["assign"][0]["proj"][-1].get("name") == "quit":
                    ag = s["assign"][1].get("aggregate") if isinstance(s["assign"][1], dict) else None
                    wrote = True
        rep.instance(rid, "disconnect-flag", sample={"zero_length_block": info["zero"], "sets_quit": wrote})
        if not wrote:
            rep.violation("R4", "radar:disconnect-not-flagged", "read_line returning Ok(0) (server closed the connection) does not set the quit reason")
    if info and info["zero"] is not None and info["err"] is not None:
        # a failed read (timeout in the middle of a line, a line that is not valid UTF-8, ...) is not a disconnect: from the Err outcome
        # the disconnect handling must not be reachable before the next read
        flag_blocks = []
        for b in cfg.reachable(info["zero"], avoid=[info["block"]]):
            if not cfg.dominates(info["zero"], b):
                continue        # only the flagging that belongs to the zero-length outcome
            for s in fn["blocks"][b]["stmts"]:
                if "assign" in s and s["assign"][0]["proj"] and s["assign"][0]["proj"][-1].get("name") == "quit":
                    flag_blocks.append(b)
        reach_err = cfg.reachable(info["err"], avoid=[info["block"]])
        hit = [b for b in flag_blocks if b in reach_err]
        rep.instance(rid, "err-is-not-disconnect", sample={"err_block": info["err"], "disconnect_flag_blocks": flag_blocks, "reachable_from_err": hit})
        if hit:
            rep.violation("R4", "radar:error-treated-as-disconnect", "a read_line error (e.g. a line that is not valid UTF-8) reaches the disconnect handling at %s: the client quits or reconnects although the server is still there, and the following lines are lost" % line_of(fn, hit[0]), site=line_of(fn, hit[0]))
    news = blocks_calling(fn, lambda p, full, c: p == "rsadsb_common::Airplanes::new")
    rep.instance(rid, "tracker-created", sample={"Airplanes::new call sites": len(news)})
    if len(news) != 1:
        rep.violation("R4", "radar:tracker-recreated", "the tracker is created %d times in main (a reconnect must keep the tracked aircraft)" % len(news))
    else:
        # the creation must not be inside the main loop
        back = cfg.back_edges()
        for tail, head in back:
            if news[0] in cfg.natural_loop(tail, head):
                rep.violation("R4", "radar:tracker-created-in-loop", "Airplanes::new() is called inside a loop of main")
                break
    muts = [p for i, p, full, c in calls(fn) if p.startswith("rsadsb_common::Airplanes::") and p.rsplit("::", 1)[1] in ("action", "prune", "incr_messages")]
    rep.instance(rid, "tracker-mutators", sample={"calls": sorted(set(muts))})


def reconnect_outcomes(prog, initial):
    """every way `radar::init_tcp_reader` can return when entered with settings.quit = `initial` (None | variant name): the function is
    interpreted path by path with unknown terminal / keyboard / network outcomes; its waiting loop is explored until a state recurs.
    -> (list of (result kind, final quit variant or None/'?'), interpreter)"""
    from ..ai import entry
    from ..ai.interp import State, top_of
    from ..ai.summaries import some, NONE
    from ..ai.values import AdtVal, RefVal, Top, Choice
    helper = prog.fns.get("radar::init_tcp_reader")
    adt = prog.adts.get("radar::Settings")
    qr = prog.adts.get("radar::QuitReason")
    if helper is None or adt is None or qr is None or len(helper["locals"]) < 4:
        return None, None
    names = [f["name"] for f in adt["variants"][0]["fields"]]
    if "quit" not in names:
        return None, None
    fields = []
    for f in adt["variants"][0]["fields"]:
        if f["name"] == "quit":
            if initial is None:
                fields.append(NONE)
            else:
                vi = [v["name"] for v in qr["variants"]].index(initial)
                fields.append(some(AdtVal("radar::QuitReason", vi, [], vname=initial)))
        else:
            fields.append(top_of(f["ty"]))
    ip = entry.new_interp(prog, max_seconds=120, merge_returns=False, loop_subsume=True)
    st = State()
    sref = None
    args = []
    for i in range(1, 1 + helper["arg_count"]) if "arg_count" in helper else range(1, 4):
        ty = helper["locals"][i]["ty"]
        if ty.get("k") == "ref" and isinstance(ty.get("to"), dict) and ty["to"].get("path") == "radar::Settings":
            sref = RefVal(st.new_heap(AdtVal("radar::Settings", 0, fields, vname="Settings")), True)
            args.append(sref)
        elif ty.get("k") == "ref":
            args.append(RefVal(st.new_heap(Top(None)), bool(ty.get("mut"))))
        else:
            args.append(top_of(ty))
    if sref is None:
        return None, None
    outs = ip.run_function(helper, args, st)
    res = []
    qi = names.index("quit")
    for o in outs:
        if o.status == "covered":
            continue
        rv = o.retval
        kind = "?"
        if o.status not in ("run", "returned"):
            kind = o.status
        elif isinstance(rv, AdtVal) and rv.path == "core::result::Result":
            if rv.variant == 1:
                kind = "Err"
            else:
                x = rv.fields[0]
                kind = "Ok(None)" if isinstance(x, AdtVal) and x.variant == 0 else ("Ok(Some)" if isinstance(x, AdtVal) and x.variant == 1 else "Ok(?)")
        q = o.heap[sref.loc[1]].fields[qi]
        if isinstance(q, AdtVal) and q.variant == 0:
            qn = None
        elif isinstance(q, AdtVal) and q.variant == 1 and isinstance(q.fields[0], AdtVal):
            qn = q.fields[0].vname
        else:
            qn = "?"
        res.append((kind, qn))
    return res, ip


def reconnect_rule(rep, prog):
    rid = rep.rule("R5", "radar --retry-tcp keeps waiting for the server: entered after a disconnect (quit reason TcpDisconnect still set), the reconnect helper gives up with Ok(None) only on a path on which the operator asked to quit (it stored QuitReason::UserRequested)")
    res, ip = reconnect_outcomes(prog, "TcpDisconnect")
    if res is None:
        rep.violation("R5", "anchor:init_tcp_reader", "anchor missing: radar::init_tcp_reader(terminal, &mut Settings { quit, .. }, socket) / radar::QuitReason")
        return
    kinds = {}
    for k, q in res:
        kinds.setdefault(k, set()).add(q)
    rep.instance(rid, "outcomes", sample={"paths": len(res), "outcomes": {k: sorted(str(x) for x in v) for k, v in sorted(kinds.items())}, "steps": ip.steps})
    for k, q in sorted(set(res), key=str):
        rep.instance(rid, "outcome|%s|%s" % (k, q))
    if "Ok(Some)" not in kinds:
        rep.violation("R5", "reconnect:never-succeeds", "no path of radar::init_tcp_reader returns a new connection")
    if "Ok(?)" in kinds or "?" in kinds:
        rep.violation("R5", "reconnect:undetermined", "the result of radar::init_tcp_reader could not be determined on some path: %s" % sorted(kinds))
    bad = sorted(str(q) for q in kinds.get("Ok(None)", ()) if q != "UserRequested")
    if bad:
        rep.violation("R5", "reconnect:gives-up-without-quit-request", "radar::init_tcp_reader, entered after a disconnect, returns Ok(None) on a path whose quit reason is still %s: "
                      "no operator quit was recorded during the call, yet main stops retrying and the client exits, losing its tracked aircraft" % bad)
    rep.floor("reconnect helper outcomes", 3, len(set(res)))


def run(rep, tier, replay=None):
    prog = facts.load("std")
    buffer_rules(rep, prog)
    malformed_rule(rep, prog)
    disconnect_rule(rep, prog)
    reconnect_rule(rep, prog)
    rep.assume("NOT decided: 'exactly once and in order for every segmentation and delay' (schedules relative to the 50 ms read timeout); only the structural skeleton is checked")
    rep.assume("BufReader::read_line appends to the String and on Err leaves the bytes read so far in it (std contract)")
    return rep.finish(
        "Structural skeleton only (the statement quantifies over TCP segmentations and delays). CFG rules on the MIR of both mains: R1 every path from a "
        "complete line to the next read_line clears the buffer; R2 no path from a failed/timed-out read_line clears it; R3 no panic site (overflow assert, "
        "bounds check, str/slice range index, unwrap/expect) between read_line and the decode call except allow-listed ones; R4 Ok(0) flags the disconnect and the tracker is created once outside the loop. "
        "R5 the reconnect helper is interpreted path by path (unknown keyboard / network outcomes, its waiting loop explored until a state recurs) from the state main calls it in after a disconnect.")
