"""C20 - build configurations agree (alloc-only == std); serialization round-trips (structural part)."""
import json
import re

from .. import facts, decode
from ..ai.values import AdtVal, ArrayVal, Choice, FloatVal, IntVal, Opaque, Top, TupleVal, fp
from .common import decode_paths
from . import tracker
from .c19 import schedule_rule  # noqa: F401  (shared signature helpers live there)

LIBS = ("adsb_deku", "rsadsb_common")


def _norm(x):
    if isinstance(x, dict):
        return {k: _norm(v) for k, v in x.items() if k not in ("span", "fn_span", "body_span", "crate")}
    if isinstance(x, list):
        return [_norm(v) for v in x]
    if isinstance(x, str):
        x = re.sub(r"\b(std|core|alloc)::", "@::", x)
        x = re.sub(r"\bno_std_io2?::io::(traits::|cursor::|error::)?", "@::io::", x)
        x = re.sub(r"@::io::(cursor::|error::|impls::)?", "@::io::", x)
        return x
    return x


def mir_rule(rep, std, alloc):
    rid = rep.rule("R2a", "functions present in both configurations have identical normalised MIR, except those touching cfg-only state, I/O error plumbing or tracing (reported as information)")
    same = diff = 0
    differing = []
    for path, f in std.fns.items():
        if f["crate"] not in LIBS:
            continue
        g = alloc.fns.get(path)
        if g is None:
            continue
        a = json.dumps(_norm({"locals": f["locals"], "blocks": f["blocks"]}), sort_keys=True)
        b = json.dumps(_norm({"locals": g["locals"], "blocks": g["blocks"]}), sort_keys=True)
        if a == b:
            same += 1
        else:
            diff += 1
            differing.append(path)
    rep.rules[rid]["instances"] += same + diff
    rep.rules[rid]["nontrivial"].update(differing)
    rep.rules[rid]["samples"].append({"identical": same, "differing": diff, "differing_sample": differing[:6]})
    rep.floor("functions with identical MIR in std and alloc", 350, same)
    rep.extra["mir_identical"] = same
    rep.extra["mir_differing"] = differing


def sig_of_paths(prog, oks):
    from ..ai.pathcond import PathCond
    from ..ref import crc as refcrc
    from ..ref import layout as L
    ref = {56: refcrc.syndrome_bits(56), 112: refcrc.syndrome_bits(112)}
    out = {}
    for p in oks:
        pc = PathCond()
        for f in p.facts:
            if f[0] == "lin":
                pc.add_lin(f[1], f[2], record=False)
        Lb = L.frame_bits(p.ids[0]) if p.ids else 112
        dev = []
        if isinstance(p.crc, IntVal) and p.crc.bits is not None:
            for j, e in enumerate(p.crc.bits):
                want = (ref[Lb][j], 0) if j < 24 else (0, 0)
                if e is None or pc.reduce(e) != pc.reduce(want):
                    dev.append(j)
        else:
            dev = ["inexact"]
        leaves = []
        for l in p.leaves:
            v = l.value
            vs = None
            if isinstance(v, IntVal):
                vs = ("int", repr(v.ty), v.bits if v.bits is not None else (v.lin.key() if v.lin is not None else (v.lo, v.hi)))
            elif isinstance(v, FloatVal):
                vs = ("float", repr(v.term))
            elif isinstance(v, Choice):
                vs = ("choice", len(v.alts))
            leaves.append((".".join(l.path), tuple(sorted(l.atoms)), l.kind, vs))
        out.setdefault(decode.describe_path(p), set()).add((tuple(p.ids), tuple(dev), tuple(leaves)))
    return out


def decode_rule(rep, progs):
    rid = rep.rule("R2b", "the decode model (accepted grammar paths, field bit provenance and value forms, checksum forms, error alternatives) is identical in every build configuration")
    base = None
    for name, prog in progs.items():
        run_, oks, errs = decode_paths(prog, 14)
        sig = sig_of_paths(prog, oks)
        esig = sorted(repr(sorted(decode.id_values(f, range(5)))) + ":" + (v.fields[0].vname if isinstance(v, AdtVal) and v.fields and isinstance(v.fields[0], AdtVal) else "?") for f, v in errs)
        rep.instance(rid, name, sample={"config": name, "grammar_paths": len(oks), "labels": len(sig), "error_alternatives": len(errs)})
        if base is None:
            base = (name, sig, esig)
            continue
        if set(sig) != set(base[1]):
            rep.violation("R2b", "decode:%s-vs-%s:paths" % (base[0], name), "accepted grammar paths differ between %s and %s: only-%s %s, only-%s %s" % (
                base[0], name, base[0], sorted(set(base[1]) - set(sig))[:3], name, sorted(set(sig) - set(base[1]))[:3]))
            continue
        bad = [l for l in sig if sig[l] != base[1][l]]
        if bad:
            rep.violation("R2b", "decode:%s-vs-%s:%s" % (base[0], name, bad[0].split("/")[0]), "%d grammar path(s) decode differently in %s and %s, e.g. %s" % (len(bad), base[0], name, bad[0]))
        if esig != base[2]:
            rep.violation("R2b", "decode:%s-vs-%s:errors" % (base[0], name), "rejection alternatives differ between %s and %s" % (base[0], name))
        for l in sig:
            rep.rules[rid]["instances"] += 1
            rep.rules[rid]["nontrivial"].add("%s|%s" % (name, l))


def strip_time(prog, v, cfg_only):
    """fingerprint of a record value with cfg-only fields removed and time tags ignored"""
    if isinstance(v, AdtVal):
        names = decode.field_names(prog, v)
        return ("A", v.path, v.variant, tuple(strip_time(prog, f, cfg_only) for n, f in zip(names, v.fields) if (v.path, n) not in cfg_only))
    if isinstance(v, TupleVal):
        return ("T", tuple(strip_time(prog, f, cfg_only) for f in v.fields))
    if isinstance(v, ArrayVal) and v.elems is not None:
        return ("Arr", tuple(strip_time(prog, f, cfg_only) for f in v.elems))
    if isinstance(v, Opaque) and v.kind == "vec":
        es = v.get("elems")
        return ("vec", tuple(strip_time(prog, f, cfg_only) for f in es) if es is not None else None, strip_time(prog, v.get("summary"), cfg_only) if v.get("summary") is not None else None)
    if isinstance(v, Choice):
        return ("C", tuple(strip_time(prog, x, cfg_only) for _d, x in v.alts))
    if isinstance(v, Top):
        return ("Top", tuple(sorted(t for t in v.tags if t and t[0] == "existing")))
    if isinstance(v, IntVal):
        return ("I", v.lo, v.hi, v.bits, v.lin.key() if v.lin is not None else None)
    if isinstance(v, FloatVal):
        return ("F", repr(v.term))
    return fp(v) if v is not None else None


def cfg_only_fields(std, alloc):
    out = set()
    for path, a in std.adts.items():
        b = alloc.adts.get(path)
        if b is None or a["kind"] != "struct":
            continue
        na = [f["name"] for f in a["variants"][0]["fields"]]
        nb = [f["name"] for f in b["variants"][0]["fields"]]
        for n in na:
            if n not in nb:
                out.add((path, n))
    return out


def tracker_rule(rep, std, alloc):
    rid = rep.rule("R2c", "for every frame kind, Airplanes::action yields the same set of (result, record-after) outcomes in the std and alloc-only builds once cfg-only fields are ignored")
    r3 = rep.rule("R3", "time (SystemTime::now / std-only timestamp fields) never decides a branch outside prune: otherwise the std build can behave differently from the alloc-only build")
    cfg_only = cfg_only_fields(std, alloc)
    rep.instance(rid, "cfg-only-fields", sample={"cfg_only_fields": sorted("%s.%s" % x for x in cfg_only)})
    if not cfg_only:
        rep.violation("R2c", "anchor:cfg-only-fields", "no cfg-only field found by diffing the ADT definitions of the std and alloc builds (expected the timestamps)")
    sigs = {}
    taint = set((("existing", n)) for (_p, n) in cfg_only) | {("time", "now")}
    tainted = {}
    for name, prog in (("std", std), ("alloc", alloc)):
        run_, oks, errs = decode_paths(prog, 14)
        reps = tracker.representative_paths(oks)
        sig = {}
        for label, p in sorted(reps.items()):
            ar = tracker.run_action(prog, p, taint_tags=frozenset(taint))
            s = set()
            for o in ar.outs:
                cells = tracker.map_cells(ar.ip, o, ar.planes_loc)
                rv = o.retval
                vac = tuple(e["vacant"] for e in o.events if e["kind"] == "map_vacancy")[:1]
                s.add((rv.vname if isinstance(rv, AdtVal) else repr(rv), vac, tuple(strip_time(prog, c, cfg_only) for _k, c in cells)))
                if name == "std":
                    for e in o.events:
                        if e["kind"] == "tainted_branch":
                            pub = [c for c in e["chain"] if not c.startswith("<") or " as " in c]
                            tainted.setdefault((e["fn"], e["tags"]), (label, e["chain"]))
            sig[label] = s
        sigs[name] = sig
    a, b = sigs["std"], sigs["alloc"]
    for label in sorted(set(a) | set(b)):
        rep.instance(rid, label)
        if label not in a or label not in b:
            rep.violation("R2c", "action:%s:missing" % label.split("/")[0], "frame kind %s exists only in one configuration" % label)
        elif a[label] != b[label]:
            rep.violation("R2c", "action:%s:%s" % tuple((label.split("/") + [""])[:2]), "%s: tracker outcomes differ between std (%d) and alloc (%d) builds" % (label, len(a[label]), len(b[label])))
    for (fn, tags), (label, chain) in sorted(tainted.items()):
        rep.instance(r3, "%s|%s" % (fn, tags), sample={"function": fn, "tags": [str(t) for t in tags], "frame": label})
        pubchain = [c for c in chain if c.startswith("rsadsb_common::Airplanes::") or c.startswith("<rsadsb_common::")]
        where = pubchain[0] if pubchain else fn
        rep.violation("R3", "time-branch:%s" % _key_fn(fn), "a branch in %s (reached from %s while processing %s) is decided by a std-only timestamp (%s): "
                      "the std build can behave differently from the alloc-only build for the same frames" % (fn, where, label, ", ".join(str(t) for t in tags)))
    rep.floor("frame kinds compared across configurations", 40, len(set(a) & set(b)))


def _key_fn(fn):
    return re.sub(r"::\{closure#\d+\}", "", fn)


def float_rule(rep, progs):
    rid = rep.rule("R4", "float math in the two libraries goes through libm (or core): no call to a std-only float intrinsic")
    n = 0
    for name, prog in progs.items():
        for f in prog.fns.values():
            if f["crate"] not in LIBS:
                continue
            for b in f["blocks"]:
                t = b["term"]
                if t and "call" in t and "path" in t["call"]["callee"]:
                    cp = t["call"]["callee"].get("resolved") or t["call"]["callee"]["path"]
                    if re.match(r"^(libm::|core::f(32|64)::|std::f(32|64)::)", cp):
                        n += 1
                        rep.instance(rid, "%s|%s|%s" % (name, f["path"], cp), sample={"config": name, "in": f["path"], "callee": cp} if n <= 2 else None)
                        if cp.startswith("std::f32::") or cp.startswith("std::f64::"):
                            rep.violation("R4", "std-float:%s:%s" % (_key_fn(f["path"]), cp.rsplit("::", 1)[1]), "%s calls the std-only float method %s (not available / not identical without std)" % (f["path"], cp))
    rep.floor("float math call sites", 10, n)


def serde_rule(rep, serde):
    rid = rep.rule("R5", "every data type of the decoded frame and of the tracker state implements both Serialize and Deserialize, with no asymmetric field attribute")
    impls = {}
    for c in serde.crates.values():
        for im in c.impls:
            st = im["self_ty"]
            if st.get("k") == "adt" and im.get("trait_def") in ("serde_core::ser::Serialize", "serde_core::de::Deserialize", "serde::ser::Serialize", "serde::de::Deserialize"):
                impls.setdefault(st["path"], set()).add(im["trait_def"].rsplit("::", 1)[1])
    roots = ["adsb_deku::Frame", "rsadsb_common::Airplanes"]
    seen = set()
    todo = list(roots)

    def tys(t, out):
        if isinstance(t, dict):
            if t.get("k") == "adt":
                out.append(t["path"])
            for v in t.values():
                tys(v, out)
        elif isinstance(t, list):
            for v in t:
                tys(v, out)
    while todo:
        p = todo.pop()
        if p in seen or p not in serde.adts:
            continue
        seen.add(p)
        for v in serde.adts[p]["variants"]:
            for f in v["fields"]:
                o = []
                tys(f["ty"], o)
                todo.extend(o)
    for p in sorted(seen):
        got = impls.get(p, set())
        rep.instance(rid, p, sample={"type": p, "impls": sorted(got)} if p in roots else None)
        if got != {"Serialize", "Deserialize"}:
            rep.violation("R5", "serde:%s" % p, "%s (part of the decoded frame / tracker state) implements %s under the serde feature; both Serialize and Deserialize are required" % (p, sorted(got) or "neither"))
    rep.floor("serializable data types", 40, len(seen))
    for c in serde.crates.values():
        for it in c.ast_items:
            for a in it.get("attrs", []):
                # container attributes that change the representation so that distinct values can serialize alike (untagged),
                # cannot represent every variant shape (internal tagging of tuple variants) or route through another type
                if "serde(" in a and re.search(r"\b(untagged|tag|content|from|try_from|into|remote|default|other)\b", a):
                    rep.violation("R5", "serde-attr:%s" % it["name"], "type %s carries the container attribute %s: values that differ only in the variant (or fields the other form lacks) do not survive a serialize/deserialize round trip" % (it["name"], a.strip()))
            fields = list(it.get("fields", []))
            for v in it.get("variants", []):
                fields.extend(v.get("fields", []))
                for a in v.get("attrs", []):
                    if "serde(" in a and re.search(r"\b(skip|skip_serializing|skip_deserializing|rename|alias|default|flatten|other|untagged|tag)\b", a):
                        rep.violation("R5", "serde-attr:%s::%s" % (it["name"], v["name"]), "variant %s::%s carries the serde attribute %s" % (it["name"], v["name"], a))
            for f in fields:
                for a in f.get("attrs", []):
                    if "serde(" in a:
                        rep.instance(rid, "attr|%s.%s" % (it["name"], f.get("name")), sample={"field": "%s.%s" % (it["name"], f.get("name")), "attr": a[:120]})
                        if re.search(r"\b(skip|skip_serializing|skip_deserializing|skip_serializing_if|rename|alias|default|flatten|serialize_with|deserialize_with|getter)\b", a):
                            rep.violation("R5", "serde-attr:%s.%s" % (it["name"], f.get("name")), "field %s.%s carries the asymmetric / lossy serde attribute %s" % (it["name"], f.get("name"), a))
                        elif "with" in a and "DisplayFromStr" not in a:
                            rep.violation("R5", "serde-with:%s.%s" % (it["name"], f.get("name")), "field %s.%s is (de)serialized through %s, not the Display/FromStr pair decided by C04-R2" % (it["name"], f.get("name"), a))


def run(rep, tier, replay=None):
    std = facts.load("std")
    alloc = facts.load("alloc")
    serde = facts.load("serde")
    r1 = rep.rule("R1", "the alloc-only, std and std+serde configurations all build (facts extracted from each)")
    for n, p in (("std", std), ("alloc", alloc), ("serde", serde)):
        rep.instance(r1, n, sample={"config": n, "functions": len(p.fns), "features": {c.name: c.features for c in p.crates.values()}} if n != "serde" else None)
    mir_rule(rep, std, alloc)
    decode_rule(rep, {"std": std, "alloc": alloc, "serde": serde} if tier == "thorough" else {"std": std, "alloc": alloc})
    tracker_rule(rep, std, alloc)
    float_rule(rep, {"std": std, "alloc": alloc})
    serde_rule(rep, serde)
    rep.assume("dependencies (deku std vs alloc, no_std_io2 vs std::io, libm) behave identically across features; a concrete serde format round-trips every float (NaN/inf are format specific): NOT decided")
    rep.assume("the address-keyed map is serialized through ICAO's Display/FromStr whose round trip is decided structurally by C04-R2")
    return rep.finish(
        "R1: all configurations build under the driver. R2a: normalised MIR equality of shared functions (information). R2b: the full decode model "
        "(grammar paths, bit provenance, value forms, checksum forms) computed independently per configuration must be identical. R2c: abstract "
        "Airplanes::action outcomes per frame kind identical across std/alloc modulo cfg-only fields. R3: taint of std-only time into branches. "
        "R4: no std-only float intrinsics. R5: Serialize+Deserialize on every type reachable from Frame / Airplanes, no asymmetric attributes.")
