"""C01 - decoding and every frame operation are total: no input panics or hangs."""
import re

from .. import facts, decode
from ..ai import entry, sum_tracker
from ..ai.interp import State
from ..ai.values import AdtVal, ArrayVal, Choice, FloatVal, IntVal, Opaque, RefVal, Top, TupleVal, U8
from ..cfg import cfg_of
from .clients import calls, panic_sites, site_where, is_external_macro, reachable_fns
from .common import decode_paths
from . import tracker, c05, c11

LIBS = {"adsb_deku", "rsadsb_common"}
ENTRY = ["adsb_deku::Frame::from_bytes", "adsb_deku::Frame::from_reader", "<adsb_deku::Frame as core::fmt::Display>::fmt",
         "adsb_deku::adsb::AirborneVelocity::calculate", "adsb_deku::cpr::get_position", "rsadsb_common::Airplanes::action",
         "rsadsb_common::Airplanes::aircraft_details", "rsadsb_common::Airplanes::all_position", "<rsadsb_common::Airplanes as core::fmt::Display>::fmt",
         "<adsb_deku::ICAO as core::str::traits::FromStr>::from_str", "<adsb_deku::ICAO as core::fmt::Display>::fmt"]

# undischarged sites tolerated, one reason each: (function with closures folded, kind:detail)
ALLOW = {
    ("adsb_deku::Frame::read_crc", "call:unwrap"): "read_to_end(..).unwrap(): on the from_bytes path the reader is a Cursor over a slice whose read never fails; arbitrary readers are C19's subject",
    ("<adsb_deku::ReaderCrc<R> as std::io::Read>::read", "call:slice-index"): "&buf[..n]: Read contract n <= buf.len(), met by Cursor",
    ("rsadsb_common::Airplanes::incr_messages", "assert:Overflow:Add:u32"): "num_messages += 1 on u32: 2^32 frames from one address (about 22 years at the extended-squitter rate)",
}


LOG_MACROS = {"info", "debug", "warn", "error", "trace", "event", "valueset", "span"}


def pub_fn(path):
    return re.sub(r"(::\{closure#\d+\})+$", "", path)


def obligation_key(ip_site_key, fn, kind, detail, sp):
    what = "assert:" + detail.split(":")[0] if kind == "assert" else ("call:" + ("index" if detail in ("slice-index", "str-index") else detail))
    if sp:
        if sp.get("exp") and sp.get("cs_file"):
            return "%s|%s:%s:%s|%s|%s" % (fn["path"], sp["cs_file"], sp["cs_lo"][0], sp["cs_lo"][1], what, sp.get("outer_mname") or sp.get("mname") or "")
        return "%s|%s:%s:%s|%s|" % (fn["path"], sp["file"], sp["lo"][0], sp["lo"][1], what)
    return "%s|?|%s|" % (fn["path"], what)


def gather_obligations(rep, prog, tier):
    """run every abstract analysis that visits library code and merge their panic-site verdicts"""
    merged = {}

    def add(obs, source):
        for k, o in obs.items():
            m = merged.setdefault(k, {"visits": 0, "failed": 0, "detail": None, "sources": set()})
            m["visits"] += o["visits"]
            m["failed"] += o["failed"]
            m["sources"].add(source)
            if o["failed"] and m["detail"] is None:
                m["detail"] = o["detail"]
    sizes = [0, 1, 3, 6, 7, 13, 14, 16] if tier == "quick" else list(range(0, 17)) + [32]
    unsumm = set()
    steps = 0
    allocs = []
    for nb in sizes:
        run_, oks, errs = decode_paths(prog, nb)
        add(run_.obligations, "decode(N=%d)" % nb)
        unsumm |= set(run_.unsummarised)
        steps += run_.steps
        allocs.extend(e for e in run_.events if e["kind"] in ("alloc", "read_to_end", "vec_extend"))
    run14, oks, errs = decode_paths(prog, 14)
    reps = tracker.representative_paths(oks)
    # rendering
    for label, p in sorted(reps.items()):
        ip, outs = c11.run_fmt(prog, p, merge=True)
        add(ip.obligations, "fmt")
        unsumm |= set(ip.unsummarised)
        steps += ip.steps
    # tracker (logging code explored)
    for label, p in sorted(reps.items()):
        if p.ids[0] not in (17, 18) and not label.startswith("DF::AllCallReply"):
            continue
        ar = tracker.run_action(prog, p, explore_logs=True, counter_delta=False, merge_returns=True)
        add(ar.ip.obligations, "action")
        unsumm |= set(ar.ip.unsummarised)
        steps += ar.ip.steps
    # velocity computation on every sub-structure
    fn = prog.fns.get("adsb_deku::adsb::AirborneVelocity::calculate")
    for label, p in sorted(reps.items()):
        if "ME::AirborneVelocity" in label and fn is not None:
            av = p.df.fields[0].fields[2].fields[0]
            ip = entry.new_interp(prog, max_seconds=60)
            st = State()
            for f in p.facts:
                st.pc.apply_fact(f)
            ip.run_function(fn, [RefVal(st.new_heap(av), False)], st)
            add(ip.obligations, "calculate")
            steps += ip.steps
    # pairing with the real NL function, field invariants of decoded reports (17-bit CPR values)
    gp = prog.fns.get("adsb_deku::cpr::get_position")
    if gp is not None:
        for p1, p2 in ((0, 0), (1, 1), (0, 1), (1, 0)):
            ip = entry.new_interp(prog, max_seconds=120)
            st = State()
            a1 = RefVal(st.new_heap(c05.sym_alt(prog, "first", p1)), False)
            a2 = RefVal(st.new_heap(c05.sym_alt(prog, "second", p2)), False)
            ip.run_function(gp, [TupleVal([a1, a2])], st)
            add(ip.obligations, "get_position")
            unsumm |= set(ip.unsummarised)
            steps += ip.steps
    # views, Display for Airplanes, ICAO::from_str
    for path, mk in (("rsadsb_common::Airplanes::aircraft_details", "details"), ("rsadsb_common::Airplanes::all_position", "all"),
                     ("<rsadsb_common::Airplanes as core::fmt::Display>::fmt", "fmt"), ("<adsb_deku::ICAO as core::str::traits::FromStr>::from_str", "icao")):
        f = prog.fns.get(path)
        if f is None:
            rep.violation("R1", "anchor:%s" % path, "anchor missing: %s" % path)
            continue
        ip = entry.new_interp(prog, max_seconds=60, fmt_infallible=False)
        st = State()
        ploc = st.new_heap(AdtVal("rsadsb_common::Airplanes", 0, [sum_tracker.new_map()], vname="Airplanes"))
        icao = AdtVal("adsb_deku::ICAO", 0, [ArrayVal([IntVal.top(U8) for _ in range(3)], 3)], vname="ICAO")
        if mk == "details":
            args = [RefVal(ploc, False), icao]
        elif mk == "all":
            args = [RefVal(ploc, False)]
        elif mk == "fmt":
            args = [RefVal(ploc, False), RefVal(st.new_heap(Opaque.make("formatter")), True)]
        else:
            args = [RefVal(st.new_heap(Opaque.make("str_unknown")), False)]
        ip.run_function(f, args, st)
        add(ip.obligations, mk)
        unsumm |= set(ip.unsummarised)
        steps += ip.steps
    return merged, unsumm, steps, allocs


def discharge_rule(rep, prog, tier):
    rid = rep.rule("R1", "every panic site of the two libraries reachable from the public entry points is proved unreachable-to-fail by the abstract interpreter on every visit (with decode-established field invariants), or allow-listed with a reason")
    merged, unsumm, steps, allocs = gather_obligations(rep, prog, tier)
    fns = reachable_fns(prog, ENTRY, LIBS)
    n_sites = n_ok = n_allow = n_macro = 0
    matched = set()
    allow_used = {}
    for path in sorted(fns):
        fn = prog.fns[path]
        for kind, detail, blk, sp in panic_sites(prog, fn):
            key = obligation_key(None, fn, kind, detail, sp)
            ob = merged.get(key)
            matched.add(key)
            n_sites += 1
            pf = pub_fn(path)
            akey = (pf, "%s:%s" % (kind, detail))
            where = site_where(sp)
            status = "discharged" if ob and ob["visits"] and not ob["failed"] else ("failed" if ob and ob["failed"] else "unvisited")
            rep.instance(rid, "%s|%s:%s|%s" % (pf, kind, detail, where), nontrivial=status != "unvisited",
                         sample={"fn": pf, "site": "%s:%s" % (kind, detail), "at": where, "status": status, "visits": ob["visits"] if ob else 0} if n_sites in (2, 40, 90) else None)
            if status == "discharged":
                n_ok += 1
                continue
            if akey in ALLOW:
                n_allow += 1
                allow_used[akey] = allow_used.get(akey, 0) + 1
                if allow_used[akey] > 1:
                    rep.violation("R1", "%s:%s:%s:more-sites" % (pf, kind, detail), "%s has another undischarged panic site of kind %s %s at %s; the allow-listed reason was confirmed for one site only" % (pf, kind, detail, where), site=where)
                continue
            if is_external_macro(sp) and (status == "unvisited" or (sp.get("outer_mname") or sp.get("mname")) in LOG_MACROS):
                # expansion of a dependency's macro: tracing's logging macros (`valueset!` has an expect("FieldSet corrupted") on its own
                # static metadata) are trusted; other dependency macro code the analyses never enter is skipped and counted
                n_macro += 1
                continue
            if status == "failed":
                rep.violation("R1", "%s:%s:%s" % (pf, kind, detail), "%s: panic site %s %s at %s is not proved safe: %s" % (pf, kind, detail, where, ob["detail"]), site=where, detail={"sources": sorted(ob["sources"])})
            else:
                rep.violation("R1", "%s:%s:%s:unvisited" % (pf, kind, detail), "%s: panic site %s %s at %s was never reached by any analysis run, so it is not discharged (fail closed)" % (pf, kind, detail, where), site=where)
    # fail closed: a site that an analysis run saw failing but the static inventory does not list (call graph gap)
    for k, ob in sorted(merged.items()):
        if ob["failed"] and k not in matched:
            fpath = k.split("|")[0]
            f = prog.fns.get(fpath)
            if f is not None and f["crate"] in LIBS:
                what = k.split("|")[2] if k.count("|") >= 2 else "?"
                if what.startswith("loop:"):
                    continue
                if what == "hang":
                    rep.violation("R2", "hang:%s" % pub_fn(fpath), "%s (%s): %s" % (fpath, k.split("|")[1], ob["detail"]), detail={"sources": sorted(ob["sources"])})
                    continue
                if any(k0 == pub_fn(fpath) and k1.startswith(what) for (k0, k1) in ALLOW):
                    continue
                rep.violation("R1", "%s:%s:uninventoried" % (pub_fn(fpath), what), "%s: panic site %s (%s) fails in an analysis run and is not in the reachable-site inventory: %s" % (fpath, what, k.split("|")[1], ob["detail"]), detail={"sources": sorted(ob["sources"])})
    rep.extra["obligations"] = n_sites
    rep.extra["discharged"] = n_ok
    rep.extra["allow_listed"] = n_allow
    rep.extra["dependency_macro_sites_skipped"] = n_macro
    rep.extra["functions_analysed"] = len(fns)
    rep.extra["interp_steps"] = steps
    rep.extra["unsummarised_callees"] = sorted(unsumm)
    rep.floor("reachable library functions", 100, len(fns))
    rep.floor("panic sites inventoried", 60, n_sites)
    if unsumm:
        from .common import unsummarised_policy
        unsummarised_policy(rep, unsumm, "panic-site discharge runs")
    return fns, allocs, merged


def termination_rule(rep, prog, fns, merged=None):
    rid = rep.rule("R2", "termination: the reachable workspace call graph is acyclic; every loop is driven by an iterator's next() (range / slice / map / vec iterators), or was iterated and left on every path of the exhaustive abstract exploration (which unrolls loops and ends only when every path has ended); no path repeats an iteration in an identical state")
    merged = merged or {}
    # call graph cycles
    graph = {}
    for p in fns:
        f = prog.fns[p]
        outs = set()
        for _i, cp, _full, c in calls(f):
            if cp in fns:
                outs.add(cp)
            for cd in c["callee"].get("closure_defs", []) or []:
                if cd in fns:
                    outs.add(cd)
        graph[p] = outs
    color = {}
    cyc = []

    def dfs(u, stack):
        color[u] = 1
        for v in graph.get(u, ()):
            if color.get(v) == 1:
                cyc.append(stack + [u, v])
            elif color.get(v) is None:
                dfs(v, stack + [u])
        color[u] = 2
    for p in sorted(graph):
        if color.get(p) is None:
            dfs(p, [])
    rep.instance(rid, "call-graph", sample={"functions": len(graph), "cycles": len(cyc)})
    for c in cyc[:3]:
        rep.violation("R2", "recursion:%s" % pub_fn(c[-1]), "recursive call cycle through %s" % " -> ".join(c[-3:]))
    nloops = 0
    for p in sorted(fns):
        f = prog.fns[p]
        cfg = cfg_of(f)
        for tail, head in cfg.back_edges():
            body = cfg.natural_loop(tail, head)
            nloops += 1
            drivers = []
            for b in body:
                t = f["blocks"][b]["term"]
                if t and "call" in t and "path" in t["call"]["callee"]:
                    cp = t["call"]["callee"].get("resolved") or t["call"]["callee"]["path"]
                    if re.search(r"Iterator(<.*>)?>::next$|iter::range::.*::next$", cp):
                        drivers.append(cp)
            rep.instance(rid, "%s|loop@bb%d" % (pub_fn(p), head), sample={"fn": pub_fn(p), "driver": drivers[:1]} if nloops <= 2 else None)
            if not drivers:
                ob = merged.get("%s||loop:bb%d|" % (p, head))
                hang = any(k.startswith(p + "|") and k.split("|")[2:3] == ["hang"] and o["failed"] for k, o in merged.items())
                if ob and ob["visits"] and not hang:
                    # every analysis run ended (an unbounded path would have exhausted the interpreter's bounds and left the check
                    # without a verdict): on all explored paths the loop was left after finitely many iterations
                    rep.info("%s: loop at bb%d is not iterator-driven; the exploration went round it on %d path(s) and every path left it" % (pub_fn(p), head, ob["visits"]))
                    continue
                rep.violation("R2", "loop:%s" % pub_fn(p), "%s contains a loop that is not driven by an iterator's next() and that no analysis run iterated: termination is not evident" % pub_fn(p))
    rep.floor("loops inspected", 3, nloops)


def alloc_rule(rep, prog, allocs):
    rid = rep.rule("R3", "allocation sizes are compile-time constants or bounded by the input length; none derives from frame contents")
    n = 0
    for e in allocs:
        if e["kind"] != "alloc":
            continue
        n += 1
        sz = e.get("size")
        rep.instance(rid, "%s|%s" % (e.get("fn"), e.get("callee")), sample={"in": e.get("fn"), "callee": e.get("callee"), "size": repr(sz)} if n <= 2 else None)
        if isinstance(sz, IntVal) and (not sz.is_const() or sz.lo > 4096):
            rep.violation("R3", "alloc:%s:%s" % (pub_fn(e.get("fn") or "?"), e.get("callee")), "%s allocates %r elements via %s: the size is not a small constant" % (e.get("fn"), sz, e.get("callee")))
            if sz.deps:
                rep.info("allocation size depends on frame bits %s" % sorted(sz.deps)[:8])
    rep.floor("allocation sites seen", 1, n)


def run(rep, tier, replay=None):
    prog = facts.load("std")
    fns, allocs, merged = discharge_rule(rep, prog, tier)
    termination_rule(rep, prog, fns, merged)
    alloc_rule(rep, prog, allocs)
    rep.assume("NOT decided: panics inside dependencies (deku, bitvec, alloc OOM), stack depth")
    rep.assume("operations on decoded frames are analysed under the field invariants the decode model establishes (values produced by the abstract decode of every grammar path)")
    rep.assume("buffer lengths explored for decoding: a finite set (quick) / 0..16 and 32 (thorough); the reader model makes longer buffers equivalent to 16 (trailing bytes are never read, C02 R2/R4)")
    return rep.finish(
        "R1: static inventory of every panic site (overflow/bounds/div asserts, unwrap/expect, slice/str indexing, explicit panics) in library functions reachable from the "
        "entry set; each must be visited and proved safe on every visit by the abstract interpreter - decode runs for several buffer lengths, rendering of every frame kind, "
        "calculate, get_position with the real NL function, tracker action with logging enabled, the views, ICAO::from_str - or be allow-listed with a reason. "
        "R2: acyclic call graph and iterator-driven loops. R3: allocation sizes observed during the abstract decode are constants.")
