"""C12 - tracker: one record per announced address, exact accounting, isolation."""
import re

from .. import facts, decode
from ..ai.values import AdtVal, ArrayVal, Choice, IntVal, Opaque
from .common import decode_paths, rng_str
from .c04 import icao_identity
from . import tracker

MUTATING = {"insert", "remove", "clear", "append", "pop_first", "pop_last", "get_mut", "iter_mut", "values_mut", "split_off", "remove_entry",
            "first_entry", "last_entry", "extract_if", "extend", "retain", "entry", "into_iter", "into_keys", "into_values", "drain"}


def owner_rule(rep, prog):
    rid = rep.rule("R1", "the map is mutated only through entry()/or_default (helpers of action) and retain() / remove() inside prune; no other mutating map API is called in the tracker crate")
    crate = prog.crates["rsadsb_common"]
    uses = {}
    for f in crate.fns.values():
        for b in f["blocks"]:
            t = b["term"]
            if t and "call" in t and "path" in t["call"]["callee"]:
                cp = t["call"]["callee"].get("resolved") or t["call"]["callee"]["path"]
                m = re.match(r"^alloc::collections::btree::map::BTreeMap::<K, V(, A)?>::(\w+)$", cp)
                if m and m.group(2) in MUTATING:
                    uses.setdefault(m.group(2), set()).add(f["path"])
                m2 = re.match(r"^<alloc::collections::btree::map::BTreeMap<K, V, A> as core::iter::traits::collect::IntoIterator>::into_iter$", cp)
                if m2:
                    uses.setdefault("into_iter", set()).add(f["path"])
    for meth, fns in sorted(uses.items()):
        for fn in sorted(fns):
            rep.instance(rid, "%s|%s" % (meth, fn), sample={"method": meth, "in": fn})
            if meth == "entry":
                continue
            if meth in ("retain", "remove") and fn.startswith("rsadsb_common::Airplanes::prune"):
                continue        # expiry itself (which records it removes is C15 R1)
            rep.violation("R1", "map-mutation:%s:%s" % (meth, _pub(fn)), "BTreeMap::%s is called in %s: the tracked set may only grow through entry() and shrink through expiry" % (meth, fn))
    rep.floor("map entry() call sites", 1, len(uses.get("entry", ())))
    rep.floor("expiry call sites (retain / remove inside prune)", 1, len([f_ for m_ in ("retain", "remove") for f_ in uses.get(m_, ()) if f_.startswith("rsadsb_common::Airplanes::prune")]))


def _pub(fn):
    return re.sub(r"::\{closure#\d+\}", "", fn)


def action_rule(rep, prog, oks):
    r2 = rep.rule("R2", "every map access made while processing a DF17 / DF18 frame is keyed by the frame's announced address f[8..32)")
    r3 = rep.rule("R3", "a DF17/DF18 frame increments its record's message count exactly once on every path; any other format touches no record")
    r4 = rep.rule("R4", "action() returns Added::Yes exactly when the address was vacant before the frame")
    reps = tracker.representative_paths(oks)
    n17 = 0
    for label, p in sorted(reps.items()):
        ar = tracker.run_action(prog, p)
        dfid = p.ids[0]
        counted = dfid in (17, 18)
        if ar.ip.unsummarised:
            from .common import unsummarised_policy
            unsummarised_policy(rep, ar.ip.unsummarised, "tracker analysis")
        bad_key = bad_cnt = bad_added = None
        for o in ar.outs:
            ev = [e for e in o.events if e["kind"] in ("map_entry", "map_vacancy", "map_insert", "map_mutation")]
            rv = o.retval
            if isinstance(rv, Choice):
                bad_added = "non-deterministic result %r" % (rv,)
                continue
            added = rv.vname if isinstance(rv, AdtVal) else repr(rv)
            if not counted:
                if ev:
                    bad_key = "a %s frame accesses the map (%s)" % (label, ev[0]["kind"])
                if added != "No":
                    bad_added = "returns %s for a frame that is not an extended squitter / TIS-B frame" % added
                continue
            keys = [e["key"] for e in ev if e["kind"] == "map_entry"]
            if not keys:
                bad_cnt = "no record is touched"
            for k in keys:
                if not (isinstance(k, AdtVal) and icao_identity(k, 8)):
                    d = decode.deps_of(k)
                    bad_key = "record keyed by %s instead of the announced address f[8..32)" % rng_str(d)
            vac = [e["vacant"] for e in ev if e["kind"] == "map_vacancy"]
            if vac:
                want = "Yes" if vac[0] else "No"
                if added != want:
                    bad_added = "address %s before the frame but action() returns Added::%s" % ("vacant" if vac[0] else "present", added)
            cells = tracker.map_cells(ar.ip, o, ar.planes_loc)
            if len(cells) != 1:
                bad_cnt = bad_cnt or "%d records touched by one frame" % len(cells)
            for kf, cell in cells:
                names = decode.field_names(prog, cell) if isinstance(cell, AdtVal) else []
                if "num_messages" in names:
                    nm = cell.fields[names.index("num_messages")]
                    base = 0 if (vac and vac[0]) else 1000      # a present record starts at the representative count 1000, a new one at 0
                    if not (isinstance(nm, IntVal) and nm.is_const() and nm.lo == base + 1):
                        bad_cnt = "message count of a %s record goes from %d to %r instead of %d" % ("new" if base == 0 else "present", base, nm, base + 1)
                else:
                    bad_cnt = "record has no num_messages field (anchor)"
        if counted:
            n17 += 1
        rep.instance(r2, label, sample={"frame": label, "paths": len(ar.outs)} if label.endswith("AirborneVelocity/AirborneVelocitySubType::GroundSpeedDecoding") else None)
        rep.instance(r3, label)
        rep.instance(r4, label)
        dfv = label.split("/")[0]
        kind = label.split("/")[1] if "/" in label else ""
        if bad_key:
            rep.violation("R2", "%s:key" % dfv, "%s: %s" % (label, bad_key))
        if bad_cnt:
            rep.violation("R3", "%s:%s:count" % (dfv, kind), "%s: %s" % (label, bad_cnt))
        if bad_added:
            rep.violation("R4", "%s:%s:added" % (dfv, kind), "%s: %s" % (label, bad_added))
    rep.floor("DF17/DF18 frame kinds analysed", 30, n17)


def writer_rule(rep, prog):
    rid = rep.rule("R3b", "num_messages is written only by +1 in the public incr_messages path and by Default")
    crate = prog.crates["rsadsb_common"]
    writers = set()
    for f in crate.fns.values():
        for b in f["blocks"]:
            for s in b["stmts"]:
                if "assign" in s:
                    pl = s["assign"][0]
                    if pl["proj"] and pl["proj"][-1].get("name") == "num_messages":
                        writers.add(f["path"])
    for w in sorted(writers):
        rep.instance(rid, w, sample={"writer": w})
        if w not in ("rsadsb_common::Airplanes::incr_messages",):
            rep.violation("R3b", "num_messages-writer:%s" % _pub(w), "num_messages is assigned in %s" % w)
    rep.floor("num_messages writers", 1, len(writers))


class _Suffixed:
    """report proxy for a second configuration: same rules, keys and messages marked with the configuration"""
    def __init__(self, rep, what):
        self._rep, self._what = rep, what

    def __getattr__(self, n):
        return getattr(self._rep, n)

    def violation(self, rule, key, msg, site=None, detail=None):
        return self._rep.violation(rule, "%s:%s" % (key, self._what.split()[0]), "[%s] %s" % (self._what, msg), site=site, detail=detail)

    def instance(self, rid, what, nontrivial=True, sample=None):
        return self._rep.instance(rid, "%s|%s" % (what, self._what.split()[0]), nontrivial=nontrivial, sample=None)

    def floor(self, name, expected_min, found):
        return self._rep.floor("%s (%s)" % (name, self._what), expected_min, found)


def run(rep, tier, replay=None):
    prog = facts.load("std")
    run_, oks, errs = decode_paths(prog, 14)
    owner_rule(rep, prog)
    tracker.alt_passes(rep, tier, oks, lambda: action_rule(rep, prog, oks))
    writer_rule(rep, prog)
    # the allocation-only (no_std) build of the tracker must account in the same way (cfg(feature = "std") blocks differ)
    try:
        aprog = facts.load("alloc")
    except Exception as e:      # facts for the alloc configuration are produced by setup.sh / facts.extract
        aprog = None
        rep.violation("R3", "anchor:alloc-config", "facts of the alloc-only configuration are not available: %r" % (e,))
    if aprog is not None:
        _r, aoks, _e = decode_paths(aprog, 14)
        arep = _Suffixed(rep, "alloc-only build")
        action_rule(arep, aprog, aoks)
    rep.assume("BTreeMap entry/or_default/get/retain behave as modelled in analysis/ai/sum_tracker.py; an existing record has arbitrary content")
    rep.assume("the history-level statement (exact counts over arbitrary interleavings) follows from the per-frame facts R1-R4 by induction over the history; the induction itself is not mechanised")
    return rep.finish(
        "Airplanes::action is interpreted abstractly on every kind of decoded frame from the decode model (address bits symbolic), against a map "
        "model in which the frame's address may be vacant or present with arbitrary content. Per frame kind and path: the keys passed to the map "
        "(R2), the change of the record's message count (R3), the returned Added vs vacancy (R4), and that non-DF17/18 frames touch nothing. "
        "R1/R3b are whole-crate scans of map-mutating calls and of writers of the counter.")
