"""C05 - CPR global position decoding (structural necessary conditions)."""
from fractions import Fraction

from .. import facts, decode, terms as T
from ..ai import entry
from ..ai.interp import State
from ..ai.summaries import some, NONE
from ..ai.values import AdtVal, ArrayVal, Choice, FloatVal, IntTy, IntVal, Opaque, RefVal, TupleVal, U8, U32, BOOL
from ..ref import nl as refnl

GET_POSITION = "adsb_deku::cpr::get_position"
ALT = "adsb_deku::Altitude"


def find_nl_fn(prog):
    """the NL function = the workspace function get_position's call tree reaches that takes one f64 and returns an integer
    through a long comparison chain (structural anchor; its name is private)"""
    best = None
    for f in prog.crates["adsb_deku"].fns.values():
        if f["arg_count"] == 1 and f["locals"][1]["ty"].get("k") == "float" and f["locals"][0]["ty"].get("k") == "int" and f["path"].startswith("adsb_deku::cpr::"):
            n = sum(1 for b in f["blocks"] if b["term"] and "switch" in b["term"])
            if best is None or n > best[0]:
                best = (n, f)
    return best[1] if best and best[0] >= 20 else None


def nl_rule(rep, prog):
    rid = rep.rule("R1", "NL(lat): symmetric in the sign of lat, 58 transition latitudes equal to the 1090-WP-9-14 table (8 decimals), NL strictly decreasing 59..2, then 1")
    fn = find_nl_fn(prog)
    if fn is None:
        rep.violation("R1", "anchor:NL-function", "no NL(lat) decision chain found among the functions of adsb_deku::cpr")
        return None
    ip = entry.new_interp(prog, max_seconds=60, merge_returns=False)
    st = State()
    lat = FloatVal(64, term=("sym", "lat"))
    outs = ip.run_function(fn, [lat], st)
    table = {}   # sign -> list of (threshold, nl)
    for o in outs:
        rv = o.retval
        guards = [f[1] for f in o.pc.log if f[0] == "guard" and f[1].get("float")]
        if not isinstance(rv, IntVal) or not rv.is_const() or not guards:
            rep.violation("R1", "NL:inexact-path", "a path of the NL function does not return a constant under float comparisons: %r" % (rv,))
            continue
        sign = None
        thr = None
        for g in guards:
            at = g.get("a_term")
            if at == ("sym", "lat") and g.get("b_const") == 0.0:
                sign = "neg" if g["op"] == "Lt" else "pos"
            elif g["op"] == "Lt" and g.get("b_const") is not None:
                thr = g["b_const"]
                a_ok = (at == ("sym", "lat")) or (at == ("Neg", ("sym", "lat")))
                if not a_ok:
                    rep.violation("R1", "NL:compared-value", "an NL threshold is compared with %r instead of |lat|" % (at,))
            elif g["op"] not in ("Ge", "Lt"):
                rep.violation("R1", "NL:operator", "NL threshold test uses operator %s (table convention is `lat < threshold`)" % g["op"])
        if sign is None:
            sign = "pos" if all(g.get("a_term") == ("sym", "lat") for g in guards) else "neg"
        table.setdefault(sign, []).append((thr, rv.lo))
    ref = refnl.thresholds()
    for sign in ("pos", "neg"):
        rows = sorted([r for r in table.get(sign, []) if r[0] is not None])
        last = [r for r in table.get(sign, []) if r[0] is None]
        rep.instance(rid, "nl-%s" % sign, sample={"sign": sign, "rows": len(rows), "first": rows[:2], "final": last})
        if len(rows) != 58 or len(last) != 1 or last[0][1] != 1:
            rep.violation("R1", "NL:%s:shape" % sign, "NL(%s lat): %d thresholds and final value %s (expected 58 thresholds, then 1)" % (sign, len(rows), last))
            continue
        for (thr, nl), (rnl, rthr) in zip(rows, ref):
            rep.rules[rid]["instances"] += 1
            rep.rules[rid]["nontrivial"].add("thr-%s-%d" % (sign, rnl))
            if nl != rnl or abs(thr - rthr) > 5e-9:
                rep.violation("R1", "NL:threshold:NL=%d" % rnl, "NL table (%s side): lat < %.8f -> %d, the table says lat < %.8f -> %d" % (sign, thr, nl, rthr, rnl))
                break
    return fn


def const_rule(rep, prog):
    rid = rep.rule("R2", "constants: NZ = 15, Dlat even = 6 deg, Dlat odd = 360/59 deg, 2^17 CPR steps")
    import struct
    want = {"NZ": 15.0, "D_LAT_EVEN": 6.0, "D_LAT_ODD": 360.0 / 59.0, "CPR_MAX": 131072.0}
    found = {}
    for path, c in prog.consts.items():
        if path.startswith("adsb_deku::cpr::") and c["ty"].get("k") == "float" and c["value"].get("kind") == "scalar":
            v = struct.unpack("<d", struct.pack("<Q", int(c["value"]["bits"], 16)))[0]
            found[v] = path
    for name, v in want.items():
        rep.instance(rid, name, sample={"value": v, "found_as": found.get(v)})
        if v not in found:
            rep.violation("R2", "const:%s" % name, "no f64 constant in adsb_deku::cpr evaluates to %r (%s); found %s" % (v, name, sorted(found)))


def sym_alt(prog, name, parity):
    """a decoded airborne position with symbolic CPR values and concrete parity"""
    adt = prog.adts[ALT]
    fields = []
    for f in adt["variants"][0]["fields"]:
        n = f["name"]
        if n in ("lat_cpr", "lon_cpr"):
            fields.append(IntVal(U32, 0, 131071, tags=frozenset([("name", "%s.%s" % (name, n))])))
        elif n == "odd_flag":
            fields.append(AdtVal("adsb_deku::CPRFormat", parity, [], vname="Odd" if parity else "Even"))
        elif n == "ss":
            fields.append(AdtVal("adsb_deku::SurveillanceStatus", 0, [], vname="NoCondition"))
        elif n == "alt":
            fields.append(NONE)
        elif n == "t":
            fields.append(IntVal.const(BOOL, 0))
        else:
            fields.append(IntVal.const(U8, 0))
    return AdtVal(ALT, 0, fields, vname="Altitude")


def ref_forms(latest_odd):
    S, C, M, A, Sb, D, call = T.S, T.C, T.M, T.A, T.Sb, T.D, T.call
    I = lambda n: ("int", IntVal(U32, 0, 131071, tags=frozenset([("name", n)])))
    E, O = ("first", "second") if latest_odd else ("second", "first")   # which argument is the even / odd report
    yE, xE = D(I(E + ".lat_cpr"), C(131072)), D(I(E + ".lon_cpr"), C(131072))
    yO, xO = D(I(O + ".lat_cpr"), C(131072)), D(I(O + ".lon_cpr"), C(131072))
    j = call("floor", A(Sb(M(C(59), yE), M(C(60), yO)), C("0.5")))
    lats = {}
    for nm, dl, b, y in (("even", C(repr(360.0 / 60.0)), 60, yE), ("odd", C(repr(360.0 / 59.0)), 59, yO)):
        r = ("Rem", j, C(b))
        variants = []
        for pm in (r, A(r, C(b))):
            base = M(dl, A(pm, y))
            variants += [base, Sb(base, C(360))]
        lats[nm] = [T.nf(v) for v in variants]
    return lats


def formula_rule(rep, prog, nl_fn):
    r3 = rep.rule("R3", "latitude/longitude formulas: j = floor(59 yE - 60 yO + 1/2), lat = Dlat (mod+(j, 60-i) + y_i) (-360 from 270), "
                        "m = floor(xE (NL-1) - xO NL + 1/2), ni = max(NL - i, 1), lon = 360/ni (mod+(m, ni) + x_i) (-360 from 180), i = parity of the second report")
    r4 = rep.rule("R4", "two reports of equal parity yield no position; the latitude zone and NL are those of the second (latest) report")
    r5 = rep.rule("R5", "a position is returned only if both latitudes give the same NL and the latitude lies in [-90, 90]")
    fn = prog.fns.get(GET_POSITION)
    if fn is None:
        rep.violation("R3", "anchor:get_position", "anchor missing: adsb_deku::cpr::get_position")
        return

    def stub_nl(ctx):
        a = ctx.args[0]
        nfa = T.nf(a.term) if isinstance(a, FloatVal) else None
        ctx.ip.event(ctx.st, "nl_call", arg_nf=nfa, fn=ctx.fr.fn["path"])
        return ctx.ret(IntVal(IntTy(64, False), 1, 59, tags=frozenset([("name", "NL(%s)" % T.show(nfa, 4000))])))
    stubs = {nl_fn["path"]: stub_nl} if nl_fn else {}
    n_some = 0
    for p1, p2 in ((0, 0), (1, 1), (0, 1), (1, 0)):
        ip = entry.new_interp(prog, max_seconds=120, merge_returns=False, stubs=stubs)
        st = State()
        a1 = RefVal(st.new_heap(sym_alt(prog, "first", p1)), False)
        a2 = RefVal(st.new_heap(sym_alt(prog, "second", p2)), False)
        outs = ip.run_function(fn, [TupleVal([a1, a2])], st)
        somes = [o for o in outs if isinstance(o.retval, AdtVal) and o.retval.vname == "Some"]
        nones = [o for o in outs if isinstance(o.retval, AdtVal) and o.retval.vname == "None"]
        rep.instance(r4, "parity-%d%d" % (p1, p2), sample={"first_odd": p1, "second_odd": p2, "some_paths": len(somes), "none_paths": len(nones)})
        for k, ob in ip.obligations.items():
            if ob["failed"]:
                rep.violation("R3", "get_position:panic-site:%s" % k.split("|")[2], "possible panic in get_position: %s %s" % (k, ob["detail"]))
        if ip.unsummarised:
            from .common import unsummarised_policy
            unsummarised_policy(rep, ip.unsummarised, "get_position analysis")
        if p1 == p2:
            if somes:
                rep.violation("R4", "equal-parity:position", "two reports of equal parity (%s) yield a position" % ("odd" if p1 else "even"))
            continue
        if not somes:
            rep.violation("R4", "mixed-parity:no-position", "an even/odd pair never yields a position")
            continue
        refs = ref_forms(latest_odd=bool(p2))
        want_lat = refs["odd" if p2 else "even"]
        lat_seen = set()
        for o in somes:
            n_some += 1
            pos = o.retval.fields[0]
            lat, lon = pos.fields[0], pos.fields[1]
            nlat = T.nf(lat.term) if isinstance(lat, FloatVal) else None
            guards = [f[1] for f in o.pc.log if f[0] == "guard"]
            fg = [g for g in guards if g.get("float")]
            if nlat not in want_lat:
                rep.violation("R3", "latitude-formula:second=%s" % ("odd" if p2 else "even"),
                              "latitude returned for a pair whose second report is %s is not Dlat*(mod+(j,%d)+y) of that report: %s" % ("odd" if p2 else "even", 59 if p2 else 60, T.show(nlat, 500)))
                break
            lat_seen.add(want_lat.index(nlat))
            # longitude: 360/ni * (mod+(m, ni) + x_i)
            nlon = T.nf(lon.term) if isinstance(lon, FloatVal) else None
            ok_lon = check_lon(rep, nlon, o, p2)
            if not ok_lon:
                rep.violation("R3", "longitude-formula:second=%s" % ("odd" if p2 else "even"),
                              "longitude formula differs from 360/ni*(mod+(m,ni)+x_i): %s" % T.show(nlon, 600))
                break
            # wrap guards
            consts = {}
            for g in fg:
                if g.get("b_const") is not None:
                    consts.setdefault(g["b_const"], set()).add(g["op"])
            for cst, what in ((270.0, "latitude wrap at 270"), (180.0, "longitude wrap at 180")):
                ops = consts.get(cst, set())
                if not ops or not ops <= {"Ge", "Lt"}:
                    rep.violation("R3", "wrap-guard:%s" % cst, "%s is not tested with `>=` (operators seen: %s)" % (what, sorted(ops)))
            # R5
            nl_eq = [g for g in guards if not g.get("float") and g["op"] in ("Eq",) and "NL(" in repr(g.get("a")) and "NL(" in repr(g.get("b"))]
            if not nl_eq:
                rep.violation("R5", "guard:NL-equal", "a position is returned on a path that never requires NL(lat_even) == NL(lat_odd)")
            else:
                # the compared zone counts must be those of the two FINAL latitudes (after the southern-hemisphere wrap): one is the
                # returned latitude, the other the other report's latitude in the variant its own `>= 270` test selected
                by_name = {"NL(%s)" % T.show(e["arg_nf"], 4000): e["arg_nf"] for e in o.events if e["kind"] == "nl_call" and e.get("arg_nf") is not None}
                g = nl_eq[-1]
                ops = []
                for side in ("a", "b"):
                    r = repr(g.get(side))
                    hit = [nf for nm, nf in by_name.items() if nm in r]
                    ops.append(hit[0] if len(hit) == 1 else None)
                other_par = "even" if p2 else "odd"
                bad = None
                if None in ops:
                    bad = "its operands are not both NL(latitude) values"
                elif nlat not in ops:
                    bad = "neither operand is NL of the returned latitude (the zone count is taken before the `>= 270` wrap or from another value)"
                else:
                    oth = ops[1] if ops[0] == nlat else ops[0]
                    if oth not in refs[other_par]:
                        bad = "the other operand is not NL of the %s report's latitude" % other_par
                    else:
                        # (variants can coincide as normal forms: Dlat*60 = 360, so every matching variant is tried)
                        consistent = False
                        for k, form in enumerate(refs[other_par]):
                            if form != oth:
                                continue
                            base = refs[other_par][k - 1] if k % 2 else oth
                            want_op = "Ge" if k % 2 else "Lt"
                            wg = [x for x in fg if x.get("b_const") == 270.0 and x.get("a_term") is not None and T.nf(x["a_term"]) == base]
                            if wg and wg[-1]["op"] == want_op:
                                consistent = True
                        if not consistent:
                            bad = "the %s latitude enters the comparison in a variant (wrapped / unwrapped by 360) that its own `>= 270` test did not select" % other_par
                if bad:
                    rep.violation("R5", "guard:NL-equal:operands", "the NL(lat_even) == NL(lat_odd) requirement is not evaluated on the two final latitudes: %s" % bad)
            lo = [g for g in fg if g.get("b_const") == -90.0 and g["op"] in ("Ge",)]
            hi = [g for g in fg if g.get("b_const") == 90.0 and g["op"] in ("Le",)]
            if not lo or not hi:
                rep.violation("R5", "guard:latitude-range", "a position is returned on a path that does not confine the latitude to [-90, 90] (guards: %s)" %
                              sorted(set((g["op"], g.get("b_const")) for g in fg)))
        rep.instance(r3, "formulas-second=%s" % ("odd" if p2 else "even"), sample={"latitude_variants_seen": sorted(lat_seen), "paths": len(somes)})
    rep.floor("position-returning paths", 8, n_some)


def check_lon(rep, nlon, o, latest_odd):
    """the longitude normal form must equal 360/ni*(mod+(m,ni)+x_i) (-360 variant allowed) built over the NL / ni atoms the code itself uses;
    those atoms must be NL(returned latitude), NL-1 and max(NL - i, 1) with i the parity of the second report"""
    if nlon is None:
        return False
    names = set()

    def walk(x):
        if isinstance(x, tuple):
            if len(x) == 2 and x[0] == "int" and isinstance(x[1], str):
                names.add(x[1])
            for y in x:
                walk(y)
    walk(nlon)
    nl = [n for n in names if n.startswith("NL(")]
    ni = [n for n in names if n.startswith("max(")]
    if len(nl) > 1 or len(ni) > 1:
        return False
    # NL must be evaluated at the returned latitude
    NLn = "NL(%s)" % T.show(T.nf(o.retval.fields[0].fields[0].term), 4000)
    if nl and nl[0] != NLn:
        return False
    i = 1 if latest_odd else 0
    NLt, NLm1 = None, None
    I = lambda n: ("int", IntVal(U32, 0, 131071, tags=frozenset([("name", n)])))
    if ni:
        NIn = ni[0]
        accepted = {"max((%s-%d),1)" % (NLn, i)}
        if i == 0:
            accepted.add("max(%s,1)" % NLn)         # NL - 0 written as NL
        if NIn not in accepted:
            return False
        NI = I(NIn)
    else:
        # max(NL - i, 1) spelled as a branch: NL - i on the path that established NL > i, the constant 1 on the other one
        def side(x):
            return (x.get("name"), x.get("const")) if isinstance(x, dict) else (None, None)
        gt = le = False
        for f in o.pc.log:
            if f[0] != "guard" or f[1].get("float"):
                continue
            g = f[1]
            (an, ac), (bn, bc) = side(g.get("a")), side(g.get("b"))
            op = g.get("op")
            if bn == NLn and ac is not None:      # constant on the left: mirror
                an, ac, bn, bc = bn, None, None, ac
                op = {"Lt": "Gt", "Gt": "Lt", "Le": "Ge", "Ge": "Le"}.get(op, op)
            if an != NLn or bc is None:
                continue
            if (op == "Gt" and bc == i) or (op == "Ge" and bc == i + 1) or (op == "Ne" and bc == 0 and i == 0):
                gt = True
            if (op == "Le" and bc == i) or (op == "Lt" and bc == i + 1) or (op == "Eq" and bc == 0 and i == 0):
                le = True
        sub = "(%s-%d)" % (NLn, i)
        if gt or (i == 0 and not le):              # NL >= 1 always (R1/R2): NL > 0 needs no test
            if sub in names:
                NI = I(sub)
            elif i == 0:
                NI = I(NLn)
            else:
                return False
        elif le:
            NI = T.C(1)
            if i == 1:
                # NL <= 1 with NL >= 1: the path knows NL = 1 (the value may have been folded into the formula)
                NLt, NLm1 = T.C(1), T.C(0)
        else:
            return False
    if not nl and NLt is None:
        return False
    S, C, M, A, Sb, D, call = T.S, T.C, T.M, T.A, T.Sb, T.D, T.call
    E, O = ("first", "second") if latest_odd else ("second", "first")
    xE, xO = D(I(E + ".lon_cpr"), C(131072)), D(I(O + ".lon_cpr"), C(131072))
    m = call("floor", A(Sb(M(xE, NLm1 if NLm1 is not None else I("(%s-1)" % NLn)), M(xO, NLt if NLt is not None else I(NLn))), C("0.5")))
    xi = xO if latest_odd else xE
    r = ("Rem", m, NI)
    forms = []
    for pm in (r, A(r, NI)):
        base = M(D(C(360), NI), A(pm, xi))
        forms += [T.nf(base), T.nf(Sb(base, C(360)))]
    return nlon in forms


def run(rep, tier, replay=None):
    prog = facts.load("std")
    nl_fn = nl_rule(rep, prog)
    const_rule(rep, prog)
    formula_rule(rep, prog, nl_fn)
    rep.assume("NOT decided: the ~5 m accuracy anywhere on Earth, re-encoding to the report's own CPR values, longitude in [-180,180) as a numeric fact (f64 arithmetic)")
    rep.assume("the longitude formula is checked structurally (operators/arguments present, second report's x), the latitude formula by polynomial normal form")
    return rep.finish(
        "Structural necessary conditions of CPR decoding. R1: the NL decision chain is interpreted with lat symbolic; its 58 thresholds, their order, "
        "the |lat| symmetry and the final 1 are compared with the transition-latitude formula. R2: evaluated constants. R3/R4: get_position is interpreted on "
        "symbolic reports for the four parity combinations (NL stubbed as an opaque atom): equal parity -> None; latitude normal form equals "
        "Dlat_i*(mod+(j,60-i)+y_i) of the SECOND report with wrap at 270 (>=); longitude structure and wrap at 180 (>=). R5: Some(..) only behind NL equality and latitude range guards.")
