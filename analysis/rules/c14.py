"""C14 - tracker attributes are latest-wins and derived views agree with the records."""
from .. import facts, decode
from ..ai import entry, sum_tracker
from ..ai.interp import State
from ..ai.values import AdtVal, ArrayVal, Choice, FloatVal, IntVal, Opaque, RefVal, Top, TupleVal, U8, fp
from .common import decode_paths
from . import tracker
from .c13 import is_none, is_some, tags_of, term_syms


from ..ai.summaries import some as some_, NONE as NONE_
from ..ai.interp import top_of as _top
from ..ai.values import IntTy


def field(prog, v, name):
    names = decode.field_names(prog, v)
    return v.fields[names.index(name)] if name in names else None


def existing(v, name):
    return ("existing", name) in tags_of(v)


def has_call(t, name):
    if isinstance(t, tuple):
        if len(t) >= 2 and t[0] == "call" and t[1] == name:
            return True
        return any(has_call(x, name) for x in t)
    return False


def latest_wins(rep, prog, oks):
    rid = rep.rule("R1", "callsign / heading / speed / vertical rate are overwritten by exactly the frames that carry them, with the frame's own values; other frames leave them untouched")
    reps = tracker.representative_paths(oks)
    n = 0
    n_calc = 0
    for label, p in sorted(reps.items()):
        if p.ids[0] not in (17, 18):
            continue
        ar = tracker.run_action(prog, p)
        adsb = p.df.fields[0]
        me = adsb.fields[2]
        kind = me.vname
        bad = None
        for o in ar.outs:
            cells = tracker.map_cells(ar.ip, o, ar.planes_loc)
            if len(cells) != 1:
                continue
            stt = cells[0][1]
            vac = [e["vacant"] for e in o.events if e["kind"] == "map_vacancy"]
            fresh = bool(vac and vac[0])
            cs, hd, sp, vs = (field(prog, stt, x) for x in ("callsign", "heading", "speed", "vert_speed"))
            untouched = lambda v, nm: is_none(v) if fresh else existing(v, nm)
            if kind == "AircraftIdentification":
                ident = me.fields[0]
                cn = field(prog, ident, "cn")
                if not (is_some(cs) and fp(cs.fields[0]) == fp(cn)):
                    bad = "callsign after an identification frame is %r, not Some(the frame's callsign)" % (cs,)
            elif not untouched(cs, "callsign"):
                bad = "a %s frame changes the callsign to %r" % (kind, cs)
            if kind == "AirborneVelocity" and "GroundSpeedDecoding" in label:
                av = me.fields[0]
                vr_atoms = field(prog, av, "vrate_value").deps
                wrote = is_some(hd) and not existing(hd, "heading")
                if wrote:
                    h, s_, v_ = hd.fields[0], sp.fields[0] if is_some(sp) else None, vs.fields[0] if is_some(vs) else None
                    if not (isinstance(h, FloatVal) and has_call(h.term, "atan2")):
                        bad = "heading is not the track component of calculate(): %r" % (h,)
                    if not (isinstance(s_, FloatVal) and has_call(s_.term, "hypot")):
                        bad = "speed is not the ground-speed component of calculate(): %r" % (s_,)
                    if not (isinstance(v_, IntVal) and v_.deps and v_.deps <= vr_atoms | frozenset([68])):
                        bad = "vert_speed is not the vertical-rate component of calculate(): %r" % (v_,)
                else:
                    if not (untouched(hd, "heading") and untouched(sp, "speed") and untouched(vs, "vert_speed")):
                        bad = "velocity fields partially written: heading %r speed %r vert_speed %r" % (hd, sp, vs)
                    # the record may keep its old velocity only when this report carries none (calculate() returned None)
                    calc = [e["value"] for e in o.events if e["kind"] == "fn_return" and e["fn"].endswith("AirborneVelocity::calculate")]
                    n_calc += len(calc)
                    if any(is_some(v) for v in calc):
                        bad = "the report carries a velocity (calculate() returned Some) but heading/speed/vert_speed keep their previous values on some path: the latest report does not win"
            elif not (untouched(hd, "heading") and untouched(sp, "speed") and untouched(vs, "vert_speed")):
                bad = "a %s frame changes heading/speed/vert_speed: %r %r %r" % (kind, hd, sp, vs)
        n += 1
        rep.instance(rid, label, sample={"frame": label, "paths": len(ar.outs)} if kind == "AircraftIdentification" else None)
        if bad:
            rep.violation("R1", "%s:%s" % (label.split("/")[0], kind), "%s: %s" % (label, bad))
    rep.floor("frame kinds", 30, n)
    rep.floor("velocity paths on which calculate() returned nothing (traced returns)", 2, n_calc)


def pairing_rule(rep, prog, oks):
    r3 = rep.rule("R3", "position and distance are written together: after any frame they are both None, both Some, or both untouched")
    r4 = rep.rule("R4", "when a new position record replaces the old one, the old record (and nothing else) is appended to the track before the overwrite")
    reps = tracker.representative_paths(oks)
    n = 0
    npush = 0
    for label, p in sorted(reps.items()):
        if not label.startswith(("DF::ADSB/ME::AirbornePosition", "DF::TisB/ME::AirbornePosition")):
            continue
        ar = tracker.run_action(prog, p)
        for o in ar.outs:
            cells = tracker.map_cells(ar.ip, o, ar.planes_loc)
            if len(cells) != 1:
                continue
            stt = cells[0][1]
            coords = field(prog, stt, "coords")
            track = field(prog, stt, "track")
            if not isinstance(coords, AdtVal):
                continue
            pos, kd = field(prog, coords, "position"), field(prog, coords, "kilo_distance")
            n += 1
            rep.instance(r3, "%s|%d" % (label, n))
            okk = (is_none(pos) and is_none(kd)) or (is_some(pos) and is_some(kd)) or (existing(pos, "position") and existing(kd, "kilo_distance"))
            if not okk:
                rep.violation("R3", "position-distance-pairing", "%s: a path ends with position %r but distance %r" % (label, pos, kd))
            vac = [e["vacant"] for e in o.events if e["kind"] == "map_vacancy"]
            fresh = bool(vac and vac[0])
            changed = not (isinstance(coords.fields[0], ArrayVal) and all(existing(x, "altitudes[%d]" % i) for i, x in enumerate(coords.fields[0].elems or [])))
            pushed = None
            if is_some(track) and isinstance(track.fields[0], Opaque) and track.fields[0].kind == "vec":
                tv = track.fields[0]
                if tv.get("elems"):
                    pushed = tv.get("elems")[-1]
                elif tv.get("summary") is not None:
                    pushed = tv.get("summary")
            if pushed is not None and isinstance(pushed, AdtVal):
                npush += 1
                rep.instance(r4, "%s|push%d" % (label, npush), sample={"frame": label, "pushed": repr(pushed)[:120]} if npush == 1 else None)
                old_ok = all((isinstance(f, ArrayVal) and all((("existing", "altitudes[%d]" % i) in tags_of(x)) or (fresh and is_none(x)) for i, x in enumerate(f.elems or [])))
                             or any(t[0] == "existing" for t in tags_of(f) if isinstance(t, tuple)) or (fresh and is_none(f)) for f in pushed.fields)
                if not old_ok:
                    rep.violation("R4", "track:pushed-record", "%s: the record appended to the track is not the previous record: %r" % (label, pushed))
    rep.floor("position-frame outcomes", 20, n)
    rep.floor("track pushes seen", 2, npush)


def views_rule(rep, prog):
    rid = rep.rule("R2", "aircraft_details is Some exactly for records with position, altitude and distance and copies exactly those; all_position lists exactly the records with a position")
    fn = prog.fns.get("rsadsb_common::Airplanes::aircraft_details")
    fn2 = prog.fns.get("rsadsb_common::Airplanes::all_position")
    if fn is None or fn2 is None:
        rep.violation("R2", "anchor", "anchor missing: Airplanes::aircraft_details / all_position")
        return
    import itertools
    n = 0
    S = entry.summaries()
    for pos_some, slot_kind, kd_some, hd_some in itertools.product((0, 1), (0, 1, 2), (0, 1), (0, 1)):
        ip = entry.new_interp(prog, max_seconds=60, merge_returns=False)
        st = State()
        icao = AdtVal("adsb_deku::ICAO", 0, [ArrayVal([IntVal.top(U8, tags=frozenset([("key", j)])) for j in range(3)], 3)], vname="ICAO")
        rec = S.existing_value(ip, st, {"k": "adt", "path": "rsadsb_common::AirplaneState", "args": []})
        names = decode.field_names(prog, rec)
        coords = rec.fields[names.index("coords")]
        cn = decode.field_names(prog, coords)
        cf = list(coords.fields)
        position = AdtVal("adsb_deku::cpr::Position", 0, [FloatVal(64, term=("sym", "rec_lat")), FloatVal(64, term=("sym", "rec_lon"))], vname="Position")
        cf[cn.index("position")] = some_(position) if pos_some else NONE_
        cf[cn.index("kilo_distance")] = some_(FloatVal(64, term=("sym", "rec_dist"))) if kd_some else NONE_
        alt_adt = prog.adts["adsb_deku::Altitude"]
        slot0 = NONE_
        alt_val = IntVal(IntTy(16, False), 1, 50175, tags=frozenset([("name", "rec_alt")]))
        if slot_kind:
            af = []
            for f in alt_adt["variants"][0]["fields"]:
                if f["name"] == "alt":
                    af.append(some_(alt_val) if slot_kind == 2 else NONE_)
                else:
                    af.append(S.existing_value(ip, st, f["ty"]) if False else _top(f["ty"]))
            slot0 = some_(AdtVal("adsb_deku::Altitude", 0, af, vname="Altitude"))
        alts = cf[cn.index("altitudes")]
        cf[cn.index("altitudes")] = ArrayVal([slot0, alts.elems[1]], 2)
        rf = list(rec.fields)
        rf[names.index("coords")] = AdtVal(coords.path, 0, cf, vname=coords.vname)
        rf[names.index("heading")] = some_(FloatVal(32, term=("sym", "rec_heading"))) if hd_some else NONE_
        rec = AdtVal(rec.path, 0, rf, vname=rec.vname)
        cell = st.new_heap(rec)
        m = Opaque.make("btreemap", cells=((fp(icao), RefVal(cell, True)),), complete=False)
        ploc = st.new_heap(AdtVal("rsadsb_common::Airplanes", 0, [m], vname="Airplanes"))
        outs = ip.run_function(fn, [RefVal(ploc, False), icao], st)
        want_some = bool(pos_some and slot_kind == 2 and kd_some)
        for o in outs:
            n += 1
            rv = o.retval
            combo = "position=%d slot0=%s distance=%d heading=%d" % (pos_some, ("None", "Some(alt None)", "Some(alt Some)")[slot_kind], kd_some, hd_some)
            rep.instance(rid, "details|%s" % combo, sample={"record": combo, "result": "Some" if is_some(rv) else "None"} if n in (1, 24) else None)
            if is_some(rv) != want_some:
                rep.violation("R2", "details:availability:%s" % ("extra" if is_some(rv) else "missing"),
                              "aircraft_details returns %s for a record with %s (details must be available exactly when position, altitude and distance are)" % ("Some" if is_some(rv) else "None", combo))
            elif is_some(rv):
                d = rv.fields[0]
                dp, da, dk, dh = (field(prog, d, x) for x in ("position", "altitude", "kilo_distance", "heading"))
                if fp(dp) != fp(position) or not (isinstance(dk, FloatVal) and dk.term == ("sym", "rec_dist")) or not (isinstance(da, IntVal) and ("name", "rec_alt") in da.tags):
                    rep.violation("R2", "details:copied-values", "aircraft_details does not copy the record's own position / altitude / distance: %r" % (d,))
                if hd_some and not (is_some(dh) and isinstance(dh.fields[0], FloatVal) and dh.fields[0].term == ("sym", "rec_heading")):
                    rep.violation("R2", "details:heading", "aircraft_details does not carry the record's heading: %r" % (dh,))
    rep.floor("aircraft_details paths", 4, n)
    # all_position
    ip2 = entry.new_interp(prog, max_seconds=60, merge_returns=False)
    st2 = State()
    ploc2 = st2.new_heap(AdtVal("rsadsb_common::Airplanes", 0, [sum_tracker.new_map()], vname="Airplanes"))
    outs2 = ip2.run_function(fn2, [RefVal(ploc2, False)], st2)
    m = 0
    for o in outs2:
        rv = o.retval
        cells = tracker.map_cells(ip2, o, ploc2)
        elems = rv.get("elems") if isinstance(rv, Opaque) and rv.kind == "vec" else None
        m += 1
        rep.instance(rid, "all_position|%d" % m)
        if not cells:
            if elems:
                rep.violation("R2", "all_position:phantom", "all_position lists an aircraft although the map is empty")
            continue
        stt = cells[0][1]
        pos = field(prog, field(prog, stt, "coords"), "position")
        if is_some(pos):
            if not elems or len(elems) != 1 or fp(elems[0].fields[1]) != fp(pos.fields[0]):
                rep.violation("R2", "all_position:missing", "an aircraft with a position is not listed (with that position) by all_position: %r" % (rv,))
        elif is_none(pos) and elems:
            rep.violation("R2", "all_position:extra", "all_position lists an aircraft without a position")
    rep.floor("all_position paths", 2, m)
    # several aircraft, some without a position: every listed position stands under the address of the record it comes from
    S = entry.summaries()

    def record(ip_, st_, name, with_pos):
        rec = S.existing_value(ip_, st_, {"k": "adt", "path": "rsadsb_common::AirplaneState", "args": []})
        names = decode.field_names(prog, rec)
        coords = rec.fields[names.index("coords")]
        cn = decode.field_names(prog, coords)
        cf = list(coords.fields)
        pos = AdtVal("adsb_deku::cpr::Position", 0, [FloatVal(64, term=("sym", name + ".lat")), FloatVal(64, term=("sym", name + ".lon"))], vname="Position")
        cf[cn.index("position")] = some_(pos) if with_pos else NONE_
        rf = list(rec.fields)
        rf[names.index("coords")] = AdtVal(coords.path, 0, cf, vname=coords.vname)
        return AdtVal(rec.path, 0, rf, vname=rec.vname), pos
    k = 0
    for shape in ((False, True), (True, False), (False, True, False, True), (True, True)):
        ip3 = entry.new_interp(prog, max_seconds=60, merge_returns=False)
        st3 = State()
        keys, cells, want = [], [], []
        for j, wp in enumerate(shape):
            key = AdtVal("adsb_deku::ICAO", 0, [ArrayVal([IntVal.const(U8, 0), IntVal.const(U8, 0), IntVal.const(U8, j + 1)], 3)], vname="ICAO")
            rec, pos = record(ip3, st3, "rec%d" % j, wp)
            keys.append(key)
            cells.append((fp(key), RefVal(st3.new_heap(rec), True)))
            if wp:
                want.append((fp(key), fp(pos)))
        mp = Opaque.make("btreemap", cells=tuple(cells), complete=True, keys=tuple(keys))
        ploc3 = st3.new_heap(AdtVal("rsadsb_common::Airplanes", 0, [mp], vname="Airplanes"))
        outs3 = ip3.run_function(fn2, [RefVal(ploc3, False)], st3)
        for o in outs3:
            rv = o.retval
            elems = rv.get("elems") if isinstance(rv, Opaque) and rv.kind == "vec" else None
            k += 1
            rep.instance(rid, "all_position|several|%d" % k, sample={"records_with_position": list(shape), "listed": len(elems) if elems is not None else None} if k == 1 else None)
            got = None
            if elems is not None and all(isinstance(e, TupleVal) and len(e.fields) == 2 for e in elems):
                got = [(fp(e.fields[0]), fp(e.fields[1])) for e in elems]
            if got != want:
                rep.violation("R2", "all_position:misattributed", "with %d tracked aircraft of which those at index %s have a position, all_position does not list exactly each of these under its own address with its own position (listed: %r)"
                              % (len(shape), [j for j, wp in enumerate(shape) if wp], rv))
    rep.floor("all_position paths with several aircraft", 4, k)


def run(rep, tier, replay=None):
    prog = facts.load("std")
    run_, oks, errs = decode_paths(prog, 14)
    tracker.alt_passes(rep, tier, oks, lambda: latest_wins(rep, prog, oks))
    tracker.alt_passes(rep, tier, oks, lambda: pairing_rule(rep, prog, oks))
    views_rule(rep, prog)
    rep.assume("map iteration is analysed for one arbitrary element (the loop body is the same for every element)")
    rep.assume("the history-level ordering claims follow from the per-frame facts by induction (not mechanised)")
    return rep.finish(
        "Airplanes::action, aircraft_details and all_position are interpreted abstractly against records whose previous content is tagged. R1: which "
        "frame kinds overwrite callsign/heading/speed/vert_speed and with which of the frame's values. R2: the views' Some/None and listed entries vs the "
        "record's position/altitude/distance, and the copied values. R3: position and distance written together. R4: the element appended to the track is the old record.")
