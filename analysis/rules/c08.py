"""C08 - aircraft identification: all eight characters, ICAO alphabet, category."""
from .. import facts, decode
from ..ai.values import AdtVal, Choice, IntVal, Opaque
from ..ref import tables as T
from .common import decode_paths, is_identity, rng_str
from .c10 import aligned

ME_ADT = "adsb_deku::adsb::ME"
BDS_ADT = "adsb_deku::bds::BDS"


def table_rule(rep, prog):
    rid = rep.rule("R2", "the 64-entry character table equals the Annex 10 6-bit set (A-Z, 0-9, space; '#' for unassigned codes)")
    c = None
    for path, cc in prog.consts.items():
        t = cc["ty"]
        if path.startswith("adsb_deku::") and t.get("k") == "ref" and t["to"].get("k") == "array" and t["to"].get("len") == 64:
            c = cc
    if c is None or not c["value"].get("bytes"):
        rep.violation("R2", "anchor:char-table", "no 64-entry character table constant found in adsb_deku")
        return
    got = [chr(b) for b in c["value"]["bytes"]]
    ref = T.charset()
    for i in range(64):
        rep.instance(rid, "char%d" % i, nontrivial=ref[i] != "#", sample={"code": i, "char": got[i]} if i in (1, 32, 48) else None)
    bad = [i for i in range(64) if got[i] != ref[i]]
    if bad:
        rep.violation("R2", "char-table:%s" % ",".join(str(i) for i in bad[:8]),
                      "character table differs from Annex 10 at code(s) %s: e.g. code %d maps to %r, expected %r" % (bad[:8], bad[0], got[bad[0]], ref[bad[0]]),
                      site="%s:%s" % (c["span"]["file"], c["span"]["lo"][0]))


def chars_rule(rep, prog, oks):
    r1 = rep.rule("R1", "both carriers read exactly eight 6-bit characters f[40..88), contiguous and in order")
    r3 = rep.rule("R3", "every non-space character is kept in order (code 32 and only code 32 is dropped); each output character depends on exactly its own 6 bits")
    carriers = {}
    for p in oks:
        if not aligned(p):
            continue
        for l in p.leaves:
            if (l.path[-1] == "cn" and ME_ADT in l.adts and p.ids[0] == 17) or ("AircraftIdentification" in l.path and BDS_ADT in l.adts and p.ids[0] == 20):
                carriers[(p.variant, ".".join(l.path[1:]))] = (p, l)
    for (dfv, name), (p, l) in sorted(carriers.items()):
        rep.instance(r1, "%s|%s" % (dfv, name), sample={"carrier": dfv + "." + name, "slice": rng_str(l.atoms)})
        want = frozenset(range(40, 88))
        if l.atoms != want:
            a = sorted(l.atoms)
            nchars = (a[-1] + 1 - a[0]) // 6 if a else 0
            rep.violation("R1", "%s:characters=%s" % ("ME" if "cn" in name else "BDS", rng_str(l.atoms)),
                          "%s.%s reads the characters from %s (%d characters); the identification is the eight characters f[40..88)" % (dfv, name, rng_str(l.atoms), nchars))
        v = l.value
        alts = v.alts if isinstance(v, Choice) else [((), v)]
        a = sorted(l.atoms)
        n_chars = (a[-1] + 1 - a[0]) // 6 if a else 0
        start = a[0] if a else 40
        bad = None
        for d, s in alts:
            if not (isinstance(s, Opaque) and s.kind == "string" and s.get("elems") is not None):
                bad = "identification value is not an exact character sequence: %r" % (s,)
                break
            present = []
            for k in range(n_chars):
                at = list(range(start + 6 * k, start + 6 * k + 6))
                allowed = decode.id_values(tuple(p.facts) + tuple(d), at)
                if allowed == [32]:
                    continue
                if 32 in allowed:
                    bad = "character %d is kept although it may be a space (or the drop condition is not `== 32`)" % k
                    break
                if len(allowed) != 63:
                    bad = "character %d is dropped/kept under a condition other than `code == 32` (allowed codes: %d)" % (k, len(allowed))
                    break
                present.append(k)
            if bad:
                break
            elems = s.get("elems")
            if len(elems) != len(present):
                bad = "%d characters kept, %d expected" % (len(elems), len(present))
                break
            for e, k in zip(elems, present):
                want_atoms = frozenset(range(start + 6 * k, start + 6 * k + 6))
                if not isinstance(e, IntVal) or e.deps != want_atoms:
                    bad = "output character for position %d depends on %s instead of its own 6 bits %s" % (k, rng_str(getattr(e, "deps", frozenset())), rng_str(want_atoms))
                    break
            if bad:
                break
        rep.instance(r3, "%s|%s" % (dfv, name), sample={"carrier": dfv + "." + name, "alternatives": len(alts)})
        if bad:
            rep.violation("R3", "%s:mapping" % ("ME" if "cn" in name else "BDS"), "%s.%s: %s" % (dfv, name, bad))
    rep.floor("identification carriers", 2, len(carriers))


def category_rule(rep, prog, oks):
    rid = rep.rule("R4", "category: type code f[32..37) with 1,2,3,4 -> D,C,B,A and the 3-bit category field f[37..40) verbatim")
    found = 0
    for p in oks:
        if not aligned(p) or p.ids[0] != 17 or "ME::AircraftIdentification" not in p.label:
            continue
        for l in p.leaves:
            if l.path[-1] == "tc" and ME_ADT in l.adts:
                found += 1
                m = {}
                if isinstance(l.value, Choice):
                    for d, v in l.value.alts:
                        for i in decode.id_values(tuple(d), range(32, 37)):
                            m[i] = v.vname
                rep.instance(rid, "tc", sample={"map": m})
                if l.atoms != frozenset(range(32, 37)) or m != {1: "D", 2: "C", 3: "B", 4: "A"}:
                    rep.violation("R4", "Identification.tc:map", "type coding reads %s with map %s; expected f[32..37) with 1:D 2:C 3:B 4:A" % (rng_str(l.atoms), m))
            if l.path[-1] == "ca" and ME_ADT in l.adts:
                found += 1
                rep.instance(rid, "ca", sample={"slice": rng_str(l.atoms)})
                if l.atoms != frozenset(range(37, 40)) or not is_identity(l, 37, 40):
                    rep.violation("R4", "Identification.ca:slice", "category field reads %s, expected f[37..40) verbatim" % rng_str(l.atoms))
    rep.floor("category fields", 2, found)
    # Display of TypeCoding: variant -> letter (the Display impl is interpreted on each variant)
    from . import c11
    got = c11.enum_words(prog, "adsb_deku::adsb::TypeCoding")
    words = {k: (v[0] if v and len(v) == 1 else v) for k, v in (got or {}).items()}
    rep.instance(rid, "display", sample={"words": words})
    if words != {"D": "D", "C": "C", "B": "B", "A": "A"}:
        rep.violation("R4", "TypeCoding:display", "TypeCoding is displayed as %s, expected each variant by its own letter" % words)


def shown_rule(rep, prog, oks):
    rid = rep.rule("R5", "both carriers show the decoded identification in full: no format spec with a precision (which truncates text) on the path that renders it")
    from . import c11, tracker
    idx = c11.site_index(prog)
    reps = tracker.representative_paths(oks)
    n = 0
    for label, p in sorted(reps.items()):
        if "ME::AircraftIdentification" not in label and "BDS::AircraftIdentification" not in label:
            continue
        n += 1
        ip, outs = c11.run_fmt(prog, p, merge=True)
        bad = c11.truncating_specs(idx, outs)
        rep.instance(rid, label, sample={"frame": label, "render paths": len(outs), "truncating specs": len(bad)} if n == 1 else None)
        for site, pc, expr, ty, _v in bad:
            rep.violation("R5", "truncated:%s:%s" % ("::".join(site["item"][-2:]), expr),
                          "%s: `%s` (%s) is printed with a precision (%r): identifications using all eight characters are cut off (%s:%d)"
                          % (label, expr, ty, pc.get("precision"), site["span"]["file"], site["span"]["lo"][0]))
    rep.floor("identification carriers rendered", 3, n)


def rejection_rule(rep, prog, errs):
    rid = rep.rule("R6", "every character string is an identification: no full-length frame of either carrier (type 1-4 squitter, BDS 2,0 reply) is rejected")
    from ..ai.pathcond import facts_atoms
    n = 0
    for fcts, v in errs:
        ids = decode.id_values(fcts, range(5))
        carrier = None
        if set(ids) & {17, 18}:
            tc = decode.id_values(fcts, range(32, 37))
            cap = decode.id_values(fcts, range(5, 8))
            # the path must be about identification squitters only (and not sit behind the reserved-capability mis-seek, C04 R1d)
            if tc and set(tc) <= {1, 2, 3, 4} and not set(cap) <= {1, 2, 3}:
                carrier = "type %s squitter" % ",".join(str(x) for x in tc)
        if carrier is None and ids and set(ids) <= {20, 21}:
            if decode.id_values(fcts, range(32, 40)) == [0x20]:
                carrier = "BDS 2,0 reply"
        if carrier is None:
            continue
        n += 1
        dep = sorted(a for a in facts_atoms(fcts) if 40 <= a < 88)
        rep.instance(rid, "err|%s|%s" % (carrier, ids), sample={"carrier": carrier, "df": ids, "depends_on_character_bits": bool(dep)} if n <= 2 else None)
        # a 14-byte buffer whose leading bits select one of the carriers has no legitimate way to be rejected
        from .c02 import err_kind
        rep.violation("R6", "rejected:%s" % carrier.split()[0], "a full-length %s (DF %s) can be rejected (%s%s): some character strings are not decoded at all"
                      % (carrier, ",".join(str(x) for x in ids), err_kind(v), (", under a condition on the character bits %s" % rng_str(dep)) if dep else ""))


def run(rep, tier, replay=None):
    prog = facts.load("std")
    run_, oks, errs = decode_paths(prog, 14)
    rejection_rule(rep, prog, errs)
    chars_rule(rep, prog, oks)
    table_rule(rep, prog)
    category_rule(rep, prog, oks)
    shown_rule(rep, prog, oks)
    return rep.finish(
        "From the decode model: R1 the identification of ME types 1-4 and of BDS 2,0 is read from f[40..88) (eight 6-bit characters); R3 in every "
        "alternative exactly the characters whose code is 32 are dropped and each kept character depends on its own 6 bits, in order; R2 the "
        "evaluated 64-entry table equals the Annex 10 set; R4 type coding map and category slice; R5 the renderer prints the identification without a truncating format spec. BDS selection by first byte 0x20 is C10-R1.")
