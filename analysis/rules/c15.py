"""C15 - expiry removes exactly the aircraft not heard from for the configured time (structural skeleton only)."""
from .. import facts, decode
from ..ai import entry, sum_tracker
from ..ai.interp import State
from ..ai.values import AdtVal, Choice, IntTy, IntVal, Opaque, RefVal, Top
from .common import decode_paths
from . import tracker
from .c13 import tags_of
from .c14 import field


def prune_rule(rep, prog):
    rid = rep.rule("R1", "prune keeps a record iff last_time.elapsed() is Ok(d) and d < Duration::from_secs(filter_time); a clock error removes it; nothing but last_time is consulted")
    fn = prog.fns.get("rsadsb_common::Airplanes::prune")
    if fn is None:
        rep.violation("R1", "anchor:prune", "anchor missing: rsadsb_common::Airplanes::prune")
        return
    ip = entry.new_interp(prog, max_seconds=60, merge_returns=False)
    st = State()
    ploc = st.new_heap(AdtVal("rsadsb_common::Airplanes", 0, [sum_tracker.new_map()], vname="Airplanes"))
    ft = IntVal(IntTy(64, False), tags=frozenset([("name", "filter_time")]))
    from ..cfg import cfg_of
    from ..ai.interp import Inconclusive
    try:
        outs = ip.run_function(fn, [RefVal(ploc, True), ft], st)
    except Inconclusive:
        if not cfg_of(fn).back_edges():
            raise
        outs = []
    seen = set()
    n = 0
    loop_form = False
    if cfg_of(fn).back_edges() and not any(e["kind"] == "retain_result" for o in outs for e in o.events):
        # expiry written as an explicit loop over the tracked addresses instead of retain(): one arbitrary iteration is analysed (everything
        # the loop assigns forgotten at its head); a record that the iteration looks up is kept unless the iteration removes that same key
        loop_form = True
        ip = entry.new_interp(prog, max_seconds=60, merge_returns=False, loop_once=True)
        st = State()
        ploc = st.new_heap(AdtVal("rsadsb_common::Airplanes", 0, [sum_tracker.new_map()], vname="Airplanes"))
        outs = ip.run_function(fn, [RefVal(ploc, True), ft], st)
        rep.info("prune is a loop over the tracked addresses (no retain()): analysed as one arbitrary iteration")
    for o in outs:
        res = [e for e in o.events if e["kind"] == "retain_result"]
        muts = [e for e in o.events if e["kind"] in ("map_mutation", "map_entry")]
        if loop_form:
            gets = [e for e in o.events if e["kind"] == "map_get" and e.get("found")]
            rem = [e for e in muts if e.get("method") == "remove"]
            other = [e for e in muts if e.get("method") != "remove"]
            if other:
                rep.violation("R1", "prune:other-mutation", "prune mutates the map through %s" % other[0].get("method", other[0]["kind"]))
            if rem and (not gets or any(r_.get("key_loc") is None or r_.get("key_loc") != gets[-1].get("key_loc") for r_ in rem)):
                rep.violation("R1", "prune:removes-other-key", "prune removes a key other than the one whose record it examined in that iteration")
            muts = []
            res = [{"value": IntVal.const(IntTy(8, False), 0 if rem else 1)}] if gets else []
        if muts:
            rep.violation("R1", "prune:other-mutation", "prune mutates the map through %s besides retain()" % muts[0].get("method", muts[0]["kind"]))
        for r in res:
            n += 1
            v = r["value"]
            keep = v.cval() if isinstance(v, IntVal) else None
            guards = [f[1] for f in o.pc.log if f[0] == "guard" and str(f[1].get("op", "")).startswith("dur_")]
            dcs = [e for e in o.events if e["kind"] == "duration_cmp"]
            el_ok = bool(dcs)
            desc = None
            if not dcs:
                desc = ("clock-error", keep)
            else:
                g = guards[-1] if guards else None
                desc = ("%s:%s" % (g["op"], g["want"]) if g else "?", keep)
                a, b = dcs[-1]["a"], dcs[-1]["b"]
                src = set(t[1] for t in (tags_of(a.get("of")) if isinstance(a, Opaque) and a.kind == "duration" else ()) if isinstance(t, tuple) and t[0] == "existing_path")
                okk = isinstance(a, Opaque) and a.kind == "duration" and src == {"last_time"} \
                    and isinstance(b, Opaque) and b.kind == "duration_const" and b.get("unit") == "secs" \
                    and isinstance(b.get("n"), IntVal) and ("name", "filter_time") in b.get("n").tags
                if not okk:
                    rep.violation("R1", "prune:operands", "the expiry test does not compare the record's own last_time.elapsed() (and nothing else; sources seen: %s) with Duration::from_secs(filter_time): %r vs %r" % (sorted(src), a, b))
            seen.add(desc)
            rep.instance(rid, "retain|%s" % (desc,), sample={"case": desc})
    want = {("clock-error", 0), ("dur_lt:1", 1), ("dur_lt:0", 0)}
    if seen != want:
        rep.violation("R1", "prune:decision-table", "retain() decision table is %s, expected %s (keep iff elapsed < T; clock error removes)" % (sorted(seen), sorted(want)))
    rep.floor("retain outcomes", 3, n)


def refresh_rule(rep, prog, oks):
    rid = rep.rule("R2", "every counted frame (DF17/DF18) sets the record's last_time to SystemTime::now() on every path; no other code writes it")
    reps = tracker.representative_paths(oks)
    n = 0
    for label, p in sorted(reps.items()):
        if p.ids[0] not in (17, 18):
            continue
        ar = tracker.run_action(prog, p)
        bad = None
        for o in ar.outs:
            cells = tracker.map_cells(ar.ip, o, ar.planes_loc)
            if not cells and o.status == "run":
                bad = "a path through action() touches no record at all, so the aircraft's last_time is not refreshed by this frame"
            for kf, stt in cells:
                lt = field(prog, stt, "last_time")
                if lt is None or ("time", "now") not in tags_of(lt):
                    bad = "last_time after the frame is %r, not SystemTime::now()" % (lt,)
        n += 1
        rep.instance(rid, label)
        if bad:
            rep.violation("R2", "%s:%s:refresh" % tuple((label.split("/") + [""])[:2]), "%s: %s" % (label, bad))
    rep.floor("counted frame kinds", 30, n)
    crate = prog.crates["rsadsb_common"]
    writers = set()
    for f in crate.fns.values():
        for b in f["blocks"]:
            for s in b["stmts"]:
                if "assign" in s:
                    pl = s["assign"][0]
                    if pl["proj"] and pl["proj"][-1].get("name") == "last_time":
                        # only the AirplaneState field (the coords' own last_time is a different field)
                        base_ty = None
                        writers.add((f["path"], len(pl["proj"])))
    for w, depth in sorted(writers):
        rep.instance(rid, "writer|%s" % w, sample={"writer": w})


class _Renamed:
    """report proxy that files another module's rules under this property with prefixed rule ids"""
    def __init__(self, rep, prefix):
        self._rep, self._p = rep, prefix

    def __getattr__(self, n):
        return getattr(self._rep, n)

    def rule(self, rid, desc):
        return self._rep.rule(self._p + rid, desc)

    def instance(self, rid, what, nontrivial=True, sample=None):
        return self._rep.instance(rid if rid.startswith(self._p) else self._p + rid, what, nontrivial=nontrivial, sample=sample)

    def violation(self, rule, key, msg, site=None, detail=None):
        return self._rep.violation(self._p + rule, key, msg, site=site, detail=detail)


def run(rep, tier, replay=None):
    prog = facts.load("std")
    run_, oks, errs = decode_paths(prog, 14)
    # "an expired aircraft that is heard again is reported as newly added and starts from an empty record": the per-frame facts
    # (Added::Yes exactly on vacancy, a fresh default record, count 1) are C12's rules R2-R4, decided here as well
    from . import c12
    c12.action_rule(_Renamed(rep, "A-"), prog, oks)
    prune_rule(rep, prog)
    tracker.alt_passes(rep, tier, oks, lambda: refresh_rule(rep, prog, oks))
    rep.assume("NOT decided: anything involving real elapsed time (clock monotonicity, the race between now() calls, scheduling): C15 is decided only as the structural skeleton above")
    rep.assume("an expired aircraft heard again is reported as added and starts empty: rules A-R2..A-R4 (C12's per-frame rules) plus removal by retain() (R1)")
    return rep.finish(
        "Only the structural skeleton of C15 is decided (most of the statement is about wall-clock time). R1: prune is interpreted abstractly; the closure's "
        "decision table over {clock error, elapsed < T, elapsed >= T} and the operands of the comparison (last_time.elapsed(), Duration::from_secs(filter_time), operator <). "
        "R2: every DF17/DF18 frame leaves last_time = SystemTime::now() on all paths (from the action runs).")
