"""C10 - interpreted payload fields equal the standard's bit fields."""
from fractions import Fraction

from .. import facts, decode
from ..ai.values import AdtVal, Choice, FloatVal, IntVal
from ..ref import layout as L
from .common import decode_paths, is_identity, leaf_pub, rng_str, tile, tabulate

ME_ADT = "adsb_deku::adsb::ME"
BDS_ADT = "adsb_deku::bds::BDS"

# payload variant (public names) -> reference layout key
INTERPRETED = {
    "ME::AirbornePositionBaroAltitude": "AirbornePosition",
    "ME::AirbornePositionGNSSAltitude": "AirbornePosition",
    "ME::SurfacePosition": "SurfacePosition",
    "ME::TargetStateAndStatusInformation": "TargetState",
    "ME::AircraftOperationStatus/OperationStatus::Airborne": "OpStatusAirborne",
    "ME::AircraftOperationStatus/OperationStatus::Surface": "OpStatusSurface",
    "BDS::DataLinkCapability": "BDS10",
}
# fields with a documented transform (not plain MSB-first integers): public field name suffix -> reference field
TRANSFORMED = {"alt", "altitude", "qnh", "heading"}


def payload_name(l):
    """public dotted field name inside the payload (path after the `me` / `bds` field)"""
    path = list(l.path)
    for i, x in enumerate(path):
        if x in ("me", "bds"):
            return ".".join(path[i + 1:])
    return ".".join(path[1:])


def payload_key(label):
    parts = [x for x in label.split("/") if x.startswith(("ME::", "BDS::", "OperationStatus::"))]
    return "/".join(parts)


def aligned(p):
    return "Capability::Reserved" not in p.label


def dispatch_rule(rep, prog, oks):
    rid = rep.rule("R1", "the type code (and subtype / first MB byte) alone selects the payload variant exactly as the documented table says")
    me_map, bds_map, op_map = {}, {}, {}
    for p in oks:
        if not aligned(p):
            continue
        pk = payload_key(p.label)
        if p.ids[0] in (17, 18) and pk.startswith("ME::"):
            for tc in decode.id_values(p.facts, range(32, 37)):
                me_map.setdefault(tc, set()).add(pk.split("/")[0][4:])
            if "OperationStatus::" in pk:
                for st in decode.id_values(p.facts, range(37, 40)):
                    op_map.setdefault(st, set()).add(pk.split("::")[-1])
        if p.ids[0] in (20, 21) and pk.startswith("BDS::"):
            for b in decode.id_values(p.facts, range(32, 40)):
                bds_map.setdefault(b, set()).add(pk[5:])
    for tc in range(32):
        want = L.ME_TYPES.get(tc)
        got = me_map.get(tc, set())
        rep.instance(rid, "tc%d" % tc, sample={"type_code": tc, "variants": sorted(got), "reference": want} if tc in (0, 9, 19, 31) else None)
        if got != {want}:
            rep.violation("R1", "ME:tc=%d" % tc, "type code %d selects %s, documented variant is %s" % (tc, sorted(got) or "nothing (rejected)", want))
    for st in range(8):
        want = "Airborne" if st == 0 else ("Surface" if st == 1 else "Reserved")
        got = op_map.get(st, set())
        rep.instance(rid, "opstatus-st%d" % st)
        if got != {want}:
            rep.violation("R1", "OperationStatus:st=%d" % st, "operational status subtype %d selects %s, expected %s" % (st, sorted(got), want))
    for b in range(256):
        want = {0x00: "Empty", 0x10: "DataLinkCapability", 0x20: "AircraftIdentification"}.get(b, "Unknown")
        got = bds_map.get(b, set())
        rep.instance(rid, "bds-%02x" % b, nontrivial=b in (0, 0x10, 0x20, 0x11))
        if got != {want}:
            rep.violation("R1", "BDS:first-byte=%#04x" % b, "first MB byte %#04x selects %s, expected %s" % (b, sorted(got), want))
    rep.floor("ME type codes dispatched", 32, len(me_map))


def slice_rule(rep, prog, oks):
    rid = rep.rule("R2", "every field of an interpreted payload reads exactly (part of) one DO-260B/ICAO 9871 field slice, in order, MSB first, with no bit outside it")
    by_key = {}
    for p in oks:
        if not aligned(p):
            continue
        pk = payload_key(p.label)
        if pk in INTERPRETED or pk.rsplit("/", 1)[0] in INTERPRETED:
            k = pk if pk in INTERPRETED else pk.rsplit("/", 1)[0]
            if (k.startswith("ME::") and p.ids[0] == 17) or (k.startswith("BDS::") and p.ids[0] == 20):
                by_key.setdefault(k, []).append(p)
    for k, paths in sorted(by_key.items()):
        ref = [(n, s, e) for n, (s, e) in L.ME_LAYOUT[INTERPRETED[k]]]
        nonverbatim = {}
        merged = {}
        order = []
        for p in paths:
            leaves = [l for l in p.leaves if ME_ADT in l.adts or BDS_ADT in l.adts]
            for l in leaves:
                name = payload_name(l)
                if name.endswith(".0") and l.path[-2] in TRANSFORMED:
                    name = name[:-2]     # Option payload of a transformed field
                if name not in merged:
                    merged[name] = set()
                    order.append(name)
                merged[name] |= set(l.atoms)
                if l.kind == "int" and l.atoms and l.path[-1] not in TRANSFORMED and not (len(l.path) > 1 and l.path[-2] in TRANSFORMED):
                    a = sorted(l.atoms)
                    if isinstance(l.value, IntVal) and l.value.bits is not None and not is_identity(l, a[0], a[-1] + 1):
                        nonverbatim[name] = (rng_str(l.atoms), repr(l.value)[:120])
            rep.instance(rid, "%s|%s" % (k, p.label), sample={"payload": k, "fields": [repr(l)[:60] for l in leaves][:6]} if p is paths[0] else None)
        probs = tile([(n, frozenset(merged[n])) for n in order], ref, allow_uncovered=set(L.RESERVED_NAMES) | {"TC", "ST", "code"})
        reads = [pr for pr in probs if not pr.startswith("reference field")]
        for pr in (reads or probs):
            rep.violation("R2", "%s:%s" % (k, _short(pr)), "%s: %s" % (k, pr), detail={"payload": k, "all_problems": probs})
        for name, (r, v) in sorted(nonverbatim.items()):
            rep.violation("R2", "%s:%s:not-msb-first" % (k, name),
                          "%s: field %s is not the bits %s most-significant-bit first (host byte order / permuted): %s" % (k, name, r, v))
    rep.floor("interpreted payload variants", 7, len(by_key))
    return by_key


def _short(problem):
    # key built from the public field name and the slice, not from the wording
    import re
    m = re.match(r"(\S+) reads (\S+)", problem)
    if m:
        kind = "straddle" if "straddling" in problem else ("outside" if "outside" in problem else ("order" if "out of order" in problem else ("overlap" if "overlapping" in problem else "noncontig")))
        return "%s@%s:%s" % (m.group(1), m.group(2), kind)
    m = re.match(r"reference field (\S+) (\S+) is not", problem)
    if m:
        return "ref-%s@%s:undecoded" % (m.group(1), m.group(2))
    return problem[:60]


def scaling_rule(rep, prog, by_key):
    rid = rep.rule("R3", "scaled fields follow the standard's scaling on every raw value: selected altitude (N-1)*32 ft (0 for N=0), QNH 800+(N-1)*0.8 hPa (0 for N=0), heading N*180/256 deg")
    k = "ME::TargetStateAndStatusInformation"
    paths = by_key.get(k, [])
    refs = {
        "altitude": lambda N: 0 if N == 0 else (N - 1) * 32,
        "qnh": lambda N: Fraction(0) if N == 0 else Fraction(800) + Fraction(N - 1) * Fraction(4, 5),
        "heading": lambda N: Fraction(N) * 180 / 256,
    }
    found = 0
    for fname, ref in refs.items():
        alts = []
        atoms = set()
        for p in paths:
            for l in p.leaves:
                if l.path[-1] == fname and ME_ADT in l.adts:
                    alts.append((p.facts, l.value))
                    atoms |= set(l.atoms)
        if not alts or not atoms:
            rep.violation("R3", "%s:%s:anchor" % (k, fname), "field %s of %s not found (public field renamed or removed)" % (fname, k))
            continue
        found += 1
        order = sorted(atoms)
        table = tabulate(alts, order)
        bad = []
        for N, v in sorted(table.items()):
            want = ref(N)
            if isinstance(v, tuple) or v is None or Fraction(v) != Fraction(want):
                bad.append((N, v, want))
        rep.instance(rid, "%s.%s" % (k, fname), sample={"field": fname, "slice": rng_str(atoms), "raw_values": len(table), "N=2": str(table.get(2))})
        if bad:
            N, v, want = bad[0]
            rep.violation("R3", "%s:%s:scaling" % (k, fname),
                          "%s.%s: %d raw value(s) do not follow the standard's scaling over the field's slice %s, e.g. N=%d gives %s, expected %s"
                          % (k, fname, len(bad), rng_str(atoms), N, v, want))
    rep.floor("scaled fields", 3, found)


def endian_rule(rep, prog, run):
    rid = rep.rule("R5", "every multi-byte read is made with an explicit big-endian context (deku's default is the host byte order)")
    seen = {}
    for e in run.events:
        if e["kind"] == "field_read" and e["nbits"] > 8:
            k = (e["fn"], e["ty"], e["nbits"], e["explicit_endian"], e["little"])
            seen[k] = e
    for (fn, ty, nbits, explicit, little), e in sorted(seen.items()):
        rep.instance(rid, "%s|%s|%d" % (fn, ty, nbits), sample={"reader": fn, "type": ty, "bits": nbits, "explicit_big_endian": explicit and not little})
        if little:
            import re
            m = re.match(r"<(.+) as deku::DekuReader", fn)
            who = m.group(1) if m else fn
            interp = any(who.endswith(x) for x in ("DataLinkCapability", "Altitude", "SurfacePosition", "TargetStateAndStatusInformation",
                                                    "OperationStatusAirborne", "OperationStatusSurface"))
            msg = "%s reads a %d-bit %s without an explicit big-endian context: on a little-endian host the value is not the field MSB-first" % (who, nbits, ty)
            if interp:
                rep.violation("R5", "%s:%s:%dbit:host-endian" % (who, ty, nbits), msg,
                              site="%s:%s" % (e["span"]["file"], e["span"]["line"]) if e.get("span") else None)
            else:
                rep.info("uninterpreted field: " + msg)
    rep.floor("multi-byte field reads", 8, len(seen))


def run(rep, tier, replay=None):
    prog = facts.load("std")
    run_, oks, errs = decode_paths(prog, 14)
    dispatch_rule(rep, prog, oks)
    by_key = slice_rule(rep, prog, oks)
    scaling_rule(rep, prog, by_key)
    endian_rule(rep, prog, run_)
    from .common import enum_tables_rule
    enum_tables_rule(rep, prog, "R6", ["adsb_deku::SurveillanceStatus", "adsb_deku::CPRFormat", "adsb_deku::adsb::ADSBVersion"],
                     "payload enumerations (surveillance status, CPR format, ADS-B version): each variant is selected by exactly the codes the standard assigns to that meaning")
    rep.assume("reference slices of DO-260B / ICAO 9871 as transcribed in analysis/ref/layout.py (fields pinned in DESIGN.md section 3)")
    rep.assume("f32 representation error of QNH/heading is not decided (scalings are compared as exact rationals of the extracted formula)")
    return rep.finish(
        "From the abstract interpretation of Frame::from_bytes: R1 the identifier values reaching each ME / OperationStatus / BDS variant "
        "equal the documented dispatch tables (all 32 type codes, 8 subtypes, 256 first-byte values); R2 every field of the interpreted "
        "payloads reads part of exactly one reference field slice, in order, MSB-first; R3 the extracted closed forms of selected altitude, "
        "QNH and heading, tabulated over every raw value of their slice, equal the standard's scaling; R5 multi-byte reads use an explicit "
        "big-endian context. 56-bit consumption per variant is C04-R1c.")
