"""helpers for the client (radar / 1090) CFG rules"""
import json
import re

from ..cfg import cfg_of


def calls(fn):
    out = []
    for i, b in enumerate(fn["blocks"]):
        t = b["term"]
        if t and "call" in t:
            c = t["call"]
            cal = c["callee"]
            path = (cal.get("resolved") or cal.get("path")) if "path" in cal else "<indirect>"
            out.append((i, path, cal.get("full") or "", c))
    return out


def blocks_calling(fn, pred):
    return [i for i, p, full, c in calls(fn) if pred(p, full, c)]


def fn_text(fn):
    t = fn.get("_text")
    if t is None:
        t = json.dumps(fn["blocks"])
        fn["_text"] = t
    return t


def closure_mentions(prog, call, needle):
    for cd in call["callee"].get("closure_defs", []) or []:
        f = prog.fns.get(cd)
        if f is not None and needle in fn_text(f):
            return True
    return False


def place_local(op):
    pl = op.get("copy") or op.get("move")
    return pl["local"] if pl else None


def ref_target(fn, local, depth=0):
    """the local a reference-typed temporary ultimately points to (through reborrows `&mut *tmp`)"""
    if depth > 6:
        return local
    for b in fn["blocks"]:
        for s in b["stmts"]:
            if "assign" in s and s["assign"][0]["local"] == local and not s["assign"][0]["proj"]:
                rv = s["assign"][1]
                if "ref" in rv:
                    pl = rv["ref"]["place"]
                    if any("deref" in pj for pj in pl["proj"]):
                        return ref_target(fn, pl["local"], depth + 1)
                    return pl["local"]
                if "use" in rv:
                    src = rv["use"].get("move") or rv["use"].get("copy")
                    if src and not src["proj"]:
                        return ref_target(fn, src["local"], depth + 1)
    return local


def const_assert(fn, block):
    """the assert's condition is computed in the same block from two constants"""
    b = fn["blocks"][block]
    a = b["term"]["assert"]
    cl = (a["cond"].get("move") or a["cond"].get("copy") or {}).get("local")
    for s in b["stmts"]:
        if "assign" in s and s["assign"][0]["local"] == cl and "bin" in s["assign"][1]:
            _op, x, y = s["assign"][1]["bin"]
            if "const" in x and "const" in y:
                return True
            # operand may be a cast of a constant computed just before
            def is_c(o):
                if "const" in o:
                    return True
                l = (o.get("move") or o.get("copy") or {}).get("local")
                for s2 in b["stmts"]:
                    if "assign" in s2 and s2["assign"][0]["local"] == l and "cast" in s2["assign"][1] and "const" in s2["assign"][1]["cast"][1]:
                        return True
                return False
            if is_c(x) and is_c(y):
                return True
    return False


def line_of(fn, block):
    t = fn["blocks"][block]["term"]
    sp = None
    if t:
        for k in ("call", "assert", "switch"):
            if k in t:
                sp = t[k].get("span")
    if sp:
        return "%s:%s" % (sp.get("cs_file") or sp.get("file"), (sp.get("cs_lo") or sp.get("lo") or [0])[0])
    return None


# standard-library functions documented to panic on some arguments (besides unwrap / expect / indexing, handled above). A call to one
# of them is a panic site that must be discharged; other standard-library callees are assumed total.
MAY_PANIC = re.compile(
    r"^core::slice::<impl \[T\]>::(split_at|split_at_mut|copy_from_slice|clone_from_slice|swap|chunks|chunks_exact|chunks_mut|windows|rotate_left|rotate_right|copy_within|split_first_chunk)$"
    r"|^core::str::<impl str>::(split_at|split_at_mut)$"
    r"|^alloc::vec::Vec::<T, A>::(remove|insert|swap_remove|drain|split_off|extend_from_within)$"
    r"|^alloc::string::String::(remove|insert|insert_str|drain|split_off|replace_range)$"
    r"|^alloc::collections::vec_deque::VecDeque::<T, A>::(insert|swap|drain|split_off)$"
    r"|^core::cell::RefCell::<T>::(borrow|borrow_mut)$"
    r"|^core::result::Result::<T, E>::(unwrap_err|expect_err)$"
    r"|^core::option::Option::<T>::(unwrap_unchecked)$"
    r"|^<core::time::Duration as core::ops::arith::(Add|Sub|Mul<u32>|Div<u32>|AddAssign|SubAssign)>::\w+$"
    r"|^<std::time::(SystemTime|Instant) as core::ops::arith::(Add<core::time::Duration>|Sub<core::time::Duration>|Sub|AddAssign<core::time::Duration>|SubAssign<core::time::Duration>)>::\w+$"
    r"|^core::num::<impl [ui]\w+>::(div_euclid|rem_euclid|ilog|ilog2|ilog10|next_power_of_two|abs_diff_unused)$"
    r"|^core::char::methods::<impl char>::(from_digit|to_digit)$"
    r"|^core::cmp::Ord::clamp$|^core::(f32|f64)::<impl f(32|64)>::clamp$"
    r"|^core::iter::traits::iterator::Iterator::step_by$")


def _operand_ty(fn, op):
    if not isinstance(op, dict):
        return None
    t = None
    if "const" in op:
        t = op["const"].get("ty")
    else:
        pl = op.get("copy") or op.get("move")
        if pl is not None:
            t = fn["locals"][pl["local"]]["ty"]
            for pj in pl["proj"]:
                if "field" in pj and pj.get("ty"):
                    t = pj["ty"]
                elif "deref" in pj and isinstance(t, dict) and t.get("k") == "ref":
                    t = t.get("to")
    if isinstance(t, dict) and t.get("k") == "int":
        return "%s%s" % ("i" if t.get("signed") else "u", "size" if t.get("ptr") else t.get("bits"))
    return None


def panic_sites(prog, fn, include_calls=True):
    """(kind, detail, block, line, key-detail) panic sites of one body"""
    out = []
    for i, b in enumerate(fn["blocks"]):
        if b["cleanup"]:
            continue
        t = b["term"]
        if not t:
            continue
        if "assert" in t:
            a = t["assert"]
            if a["kind"] in ("MisalignedPointerDereference", "NullPointerDereference"):
                continue
            if const_assert(fn, i):
                continue
            sp = a.get("span") or {}
            op = (a.get("detail") or {}).get("op", "")
            # the operand type is part of the site's identity (an allow-listed u32 counter overflow is not a u8 one)
            tysfx = ""
            if a["kind"] == "Overflow":
                t = _operand_ty(fn, (a.get("detail") or {}).get("a"))
                if t:
                    tysfx = ":" + t
            out.append(("assert", "%s%s%s" % (a["kind"], (":" + op) if op else "", tysfx), i, sp))
        elif "call" in t and include_calls and "path" in t["call"]["callee"]:
            cp = t["call"]["callee"].get("resolved") or t["call"]["callee"]["path"]
            sp = t["call"].get("span") or {}
            m = re.search(r"::(unwrap|expect)$", cp)
            if m and ("option::Option" in cp or "result::Result" in cp):
                out.append(("call", m.group(1), i, sp))
            elif re.search(r"Index(Mut)?<[^>]*> for (str|alloc::string::String)>::index|<(alloc::string::String|str) as core::ops::index::Index(Mut)?<[^>]*>>::index", cp):
                out.append(("call", "str-index", i, sp))
            elif re.search(r"core::slice::index::<impl core::ops::index::Index(Mut)?<I> for \[T\]>::index|<alloc::vec::Vec<T, A> as core::ops::index::Index(Mut)?<I>>::index", cp):
                out.append(("call", "slice-index", i, sp))
            elif re.search(r"ops::index::Index(Mut)?<", cp) and re.search(r"::index(_mut)?$", cp) and re.match(r"^<?(core|alloc|std)::", cp):
                # arrays (`buf[..n]`), VecDeque, BTreeMap / HashMap (`map[&key]`): every std Index impl panics on a missing element
                out.append(("call", "slice-index", i, sp))
            elif cp in ("core::panicking::panic", "core::panicking::panic_fmt", "core::panicking::assert_failed", "std::rt::begin_panic", "core::panicking::panic_explicit"):
                out.append(("call", "panic", i, sp))
            elif MAY_PANIC.search(cp):
                out.append(("call", "may-panic:" + cp.rsplit("::", 1)[1], i, sp))
    return out


def site_where(sp):
    if not sp:
        return "?"
    if sp.get("exp") and sp.get("cs_file"):
        return "%s:%s" % (sp["cs_file"], sp["cs_lo"][0])
    return "%s:%s" % (sp.get("file"), (sp.get("lo") or [0])[0])


def is_external_macro(sp):
    return bool(sp) and sp.get("exp") and sp.get("mlocal") is False and (sp.get("outer_mname") or sp.get("mname")) not in ("", None)


def _adts_in_ty(t, out):
    if not isinstance(t, dict):
        return
    k = t.get("k")
    if k == "adt":
        out.add(t["path"])
        for a in t.get("args", []) or []:
            _adts_in_ty(a, out)
    elif k in ("ref", "ptr"):
        _adts_in_ty(t.get("to"), out)
    elif k in ("array", "slice"):
        _adts_in_ty(t.get("elem"), out)
    elif k == "tuple":
        for a in t.get("elems", []) or []:
            _adts_in_ty(a, out)


def trait_impl_index(prog):
    """ADT path -> trait-impl methods defined for it in the workspace"""
    idx = getattr(prog, "_trait_impl_index", None)
    if idx is None:
        idx = {}
        for path, f in prog.fns.items():
            im = f.get("impl")
            if im and im.get("trait") and isinstance(im.get("self_ty"), dict):
                s = set()
                _adts_in_ty(im["self_ty"], s)
                st = im["self_ty"]
                if st.get("k") == "adt":
                    idx.setdefault(st["path"], []).append(path)
        prog._trait_impl_index = idx
    return idx


def reachable_fns(prog, roots, within_crates):
    """call-graph closure. A call to a function outside the workspace that is instantiated with a workspace type T may call back
    any trait method implemented for T (Display through format arguments, readers through deku's generic containers, ...), so those
    impl methods are reachable too."""
    seen = set()
    todo = list(roots)
    tix = trait_impl_index(prog)
    while todo:
        p = todo.pop()
        if p in seen:
            continue
        f = prog.fns.get(p)
        if f is None or f["crate"] not in within_crates:
            continue
        seen.add(p)
        for _i, cp, _full, c in calls(f):
            todo.append(cp)
            for cd in c["callee"].get("closure_defs", []) or []:
                todo.append(cd)
            if cp not in prog.fns:
                adts = set()
                for ta in c["callee"].get("targs", []) or []:
                    _adts_in_ty(ta, adts)
                for a in adts:
                    todo.extend(tix.get(a, ()))
        for b in f["blocks"]:
            for s in b["stmts"]:
                if "assign" in s:
                    rv = s["assign"][1]
                    ag = rv.get("aggregate") if isinstance(rv, dict) else None
                    if ag and ag.get("kind") == "closure":
                        todo.append(ag["def"])
    return seen
