"""C02 - downlink-format recognition, frame-length discipline and acceptance set."""
from .. import facts, decode
from ..ai.values import AdtVal, Choice, IntVal, Opaque
from ..ref import layout as L
from .common import decode_paths, rng_str


def err_kind(v):
    if isinstance(v, AdtVal) and v.path == "core::result::Result" and v.variant == 1 and v.fields:
        e = v.fields[0]
        if isinstance(e, AdtVal):
            return e.vname or e.path
        return type(e).__name__
    return repr(v)[:40]


def acceptance(rep, prog, oks, errs):
    rid = rep.rule("R1", "the set of 5-bit identifier values reaching an accepted frame, and the variant each maps to, equal the documented table; all other ids end in the no-match error")
    acc = {}
    for p in oks:
        for i in p.ids:
            acc.setdefault(i, set()).add(p.variant)
    for i in range(32):
        want = L.ACCEPTED_DF.get(i)
        got = acc.get(i)
        rep.instance(rid, "df%d" % i, sample={"id": i, "variants": sorted(got) if got else None, "reference": want} if i in (0, 1, 17, 24) else None)
        if want is None and got:
            rep.violation("R1", "df%d:accepted" % i, "downlink format %d must be rejected but decodes as %s" % (i, sorted(got)))
        elif want is not None and not got:
            rep.violation("R1", "df%d:rejected" % i, "downlink format %d (%s) must be accepted but no grammar path accepts it" % (i, want))
        elif want is not None and got != {want}:
            rep.violation("R1", "df%d:variant" % i, "downlink format %d decodes as %s, documented variant is %s" % (i, sorted(got), want))
    rej = set()
    for fcts, v in errs:
        ids = decode.id_values(fcts, range(5))
        if err_kind(v) == "Parse" and set(ids) <= set(L.REJECTED_DF) and len(ids) < 32:
            rej |= set(ids)
    miss = set(L.REJECTED_DF) - rej - set(acc)
    if miss:
        rep.violation("R1", "rejected-ids-not-errors", "ids %s neither decode nor end in the no-match error" % sorted(miss))


def length_rule(rep, prog, nb, oks):
    rid = rep.rule("R2/R4", "checksum and every decoded field depend only on the first 56 bits (DF 0-15) or 112 bits (DF 16-31): the length is selected by format and trailing bytes are inert")
    for p in oks:
        lens = set(L.frame_bits(i) for i in p.ids)
        if len(lens) != 1:
            continue
        Lb = lens.pop()
        rep.instance(rid, "%s|N=%d" % (p.label, nb), sample={"path": p.label, "N": nb, "frame_bits": Lb} if p.label in ("DF::ShortAirAirSurveillance", "DF::LongAirAir") else None)
        crc_atoms = p.crc.deps if isinstance(p.crc, IntVal) else frozenset()
        if crc_atoms != frozenset(range(Lb)):
            extra = sorted(crc_atoms - frozenset(range(Lb)))
            missing = sorted(frozenset(range(Lb)) - crc_atoms)
            rep.violation("R2/R4", "%s:checksum-window" % p.label.split("/")[0],
                          "checksum of %s covers %s; the format's frame is f[0..%d) (extra bits %s, missing bits %s)"
                          % (p.label, rng_str(crc_atoms), Lb, extra[:8], missing[:8]))
        for l in p.leaves:
            beyond = [a for a in l.atoms if a >= Lb]
            if beyond:
                rep.violation("R2/R4", "%s:%s:reads-beyond-frame" % (p.label.split("/")[0], ".".join(l.path[1:])),
                              "field %s of %s depends on bits %s beyond the %d-bit frame" % (".".join(l.path[1:]), p.label, beyond[:6], Lb))


def short_rule(rep, prog, nbytes_list):
    rid = rep.rule("R3", "a buffer shorter than the format's frame never yields a frame (only errors), for every buffer length")
    for nb in nbytes_list:
        run, oks, errs = decode_paths(prog, nb)
        for p in oks:
            need = set(L.frame_bits(i) // 8 for i in p.ids)
            rep.instance(rid, "N=%d|%s" % (nb, p.label))
            if any(n > nb for n in need):
                rep.violation("R3", "%s:accepted-short" % p.label.split("/")[0],
                              "a %d-byte buffer decodes as %s although the format needs %s bytes" % (nb, p.label, sorted(need)))
        kinds = {}
        for fcts, v in errs:
            k = err_kind(v)
            kinds[k] = kinds.get(k, 0) + 1
        rep.instance(rid, "N=%d|errors" % nb, sample={"N": nb, "accepted_paths": len(oks), "error_kinds": kinds})
        if run.unsummarised:
            from .common import unsummarised_policy
            unsummarised_policy(rep, run.unsummarised, "decode analysis")


def rejection_rule(rep, prog, oks, errs):
    rid = rep.rule("R5", "every rejection of a full-length buffer is the DF no-match or an operational-status (type 31, subtype 0/1) reserved-bit/version check")
    n = 0
    for fcts, v in errs:
        k = err_kind(v)
        ids = decode.id_values(fcts, range(5))
        n += 1
        if k == "Parse" and set(ids) <= set(L.REJECTED_DF) and len(ids) < 32:
            rep.instance(rid, "df-no-match", sample={"kind": k, "df_ids": ids})
            continue
        tc = decode.id_values(fcts, range(32, 37))
        st = decode.id_values(fcts, range(37, 40))
        cap = decode.id_values(fcts, range(5, 8))
        rep.instance(rid, "err|%s|%s|%s|%s" % (k, ids, tc, st), sample={"kind": k, "df_ids": ids, "type_codes": tc, "subtypes": st})
        if set(ids) <= {17, 18} and tc == [31] and set(st) <= {0, 1} and k in ("Assertion", "Parse"):
            continue
        if set(ids) <= {11, 17} | set(range(24, 32)) and set(cap) <= {1, 2, 3}:
            # behind the mis-seek of a reserved capability value the type/subtype test reads shifted bits
            tc2 = decode.id_values(fcts, range(27, 32))
            rep.violation("R5", "Capability::Reserved:rejection-misaddressed",
                          "with capability 1-3 (reserved) an extra rejection (%s) exists whose condition reads shifted bits (type test on f[27..32) = %s): "
                          "frames are rejected that are not type-31 subtype-0/1 reports" % (k, tc2))
            continue
        rep.violation("R5", "%s:df=%s:tc=%s:st=%s" % (k, _c(ids), _c(tc), _c(st)),
                      "unexpected rejection %s for DF ids %s, type codes %s, subtypes %s" % (k, _c(ids), _c(tc), _c(st)))
    rep.floor("rejection alternatives", 5, n)


def _c(xs):
    if len(xs) > 8:
        return "%d..%d(%d)" % (xs[0], xs[-1], len(xs))
    return ",".join(str(x) for x in xs)


def run(rep, tier, replay=None):
    prog = facts.load("std")
    run14, oks, errs = decode_paths(prog, 14)
    acceptance(rep, prog, oks, errs)
    length_rule(rep, prog, 14, oks)
    rejection_rule(rep, prog, oks, errs)
    if tier == "quick":
        short_rule(rep, prog, [0, 1, 4, 6, 7, 13])
    else:
        short_rule(rep, prog, [n for n in range(0, 14)])
    # a buffer with two trailing bytes: the frame and its checksum must not depend on them (read_to_end pulls them into the cache)
    run16, oks16, errs16 = decode_paths(prog, 16)
    length_rule(rep, prog, 16, oks16)
    rep.floor("accepted grammar paths (N=14)", 60, len(oks))
    rep.assume("deku reader/primitive semantics as summarised; Cursor<&[u8]> reads are exact prefixes of the buffer")
    return rep.finish(
        "Abstract interpretation of Frame::from_bytes on symbolic buffers of several lengths. R1: identifier values reaching each "
        "variant vs the documented acceptance table (all 32 ids). R2/R4: the checksum's and every field's bit dependencies are confined to "
        "the format's 56/112 bits (trailing bytes inert; length chosen by bit 0x10 of the id). R3: for every shorter buffer length explored "
        "no grammar path yields a frame needing more bytes. R5: every error alternative on a full-length buffer is classified; anything other "
        "than the DF no-match and the operational-status gates is reported.")
