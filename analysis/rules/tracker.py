"""shared driver: abstract runs of Airplanes::action on decoded frames"""
from .. import decode
from ..ai import entry, sum_tracker
from ..ai.interp import State
from ..ai.values import AdtVal, Choice, FloatVal, IntVal, Opaque, RefVal, TupleVal
from .common import decode_paths

ACTION = "rsadsb_common::Airplanes::action"


PICK = 0       # which path of each label is the representative (0 in the quick tier; the thorough tier also runs 1, 2, ...)


def representative_paths(oks):
    groups = {}
    for p in oks:
        if "Capability::Reserved" in p.label or "DownlinkRequest::Unknown" in p.label:
            continue
        groups.setdefault(p.label, []).append(p)
    return {l: ps[PICK] for l, ps in groups.items() if len(ps) > PICK}


def alt_passes(rep, tier, oks, fn):
    """run fn() on the first grammar path of every frame kind; in the thorough tier also on the 2nd, 3rd, ... path of each kind
    (kinds with several grammar paths differ in nested choices such as the altitude coding). Floors apply to the first pass only."""
    global PICK
    fn()
    if tier != "thorough":
        return 1
    groups = {}
    for p in oks:
        groups[p.label] = groups.get(p.label, 0) + 1
    maxk = max(groups.values()) if groups else 1
    for k in range(1, maxk):
        PICK = k
        rep.no_floors = True
        try:
            fn()
        finally:
            PICK = 0
            rep.no_floors = False
    return maxk


def stub_get_position(ctx):
    """cpr::get_position is decided under C05; here it yields no position or an arbitrary one"""
    from ..ai.summaries import some, NONE
    tup = ctx.args[0]
    vals = []
    if isinstance(tup, TupleVal):
        for x in tup.fields:
            vals.append(ctx.ip.read_loc(ctx.st, x.loc) if isinstance(x, RefVal) else x)
    ctx.ip.event(ctx.st, "get_position_call", args=tuple(vals), fn=ctx.fr.fn["path"])
    ctx.fr.tag = "position_fn"
    pos = AdtVal("adsb_deku::cpr::Position", 0, [FloatVal(64, term=("sym", "cpr_lat")), FloatVal(64, term=("sym", "cpr_lon"))], vname="Position")
    s2 = ctx.st.copy()
    ctx.st.events.append({"kind": "get_position_result", "some": True})
    s2.events.append({"kind": "get_position_result", "some": False})
    return ctx.ret_states([(ctx.st, some(pos)), (s2, NONE)])


STUBS = {"adsb_deku::cpr::get_position": stub_get_position}


class ActionRun:
    def __init__(self, path, outs, ip, planes_loc):
        self.path = path
        self.outs = outs
        self.ip = ip
        self.planes_loc = planes_loc


_CACHE = {}


def run_action(prog, p, **opts):
    key = (prog.tree_hash, prog.config, p.label, tuple(sorted((k, repr(v)) for k, v in opts.items())))
    if key in _CACHE:
        return _CACHE[key]
    o = dict(max_seconds=120, counter_delta=True, stubs=STUBS, merge_returns=False,
             trace_returns=frozenset(["adsb_deku::adsb::AirborneVelocity::calculate", "rsadsb_common::AirplaneCoor::update_position"]))
    o.update(opts)
    ip = entry.new_interp(prog, **o)
    st = State()
    for f in p.facts:
        st.pc.apply_fact(f)
    planes = AdtVal("rsadsb_common::Airplanes", 0, [sum_tracker.new_map()], vname="Airplanes")
    ploc = st.new_heap(planes)
    pref = RefVal(ploc, True)
    ll = TupleVal([FloatVal(64, term=("sym", "receiver_lat")), FloatVal(64, term=("sym", "receiver_lon"))])
    mr = FloatVal(64, term=("sym", "max_range"))
    fn = prog.fns.get(ACTION)
    outs = ip.run_function(fn, [pref, p.frame, ll, mr], st)
    r = ActionRun(p, outs, ip, ploc)
    _CACHE[key] = r
    return r


def map_cells(ip, st, ploc):
    planes = st.heap[ploc[1]]
    m = planes.fields[0]
    out = []
    if isinstance(m, Opaque) and m.kind == "btreemap":
        for kf, cell in m.get("cells"):
            out.append((kf, st.heap[cell.loc[1]]))
    return out
