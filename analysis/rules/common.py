"""helpers shared by the layout rules"""
from .. import decode
from ..ai.values import AdtVal, Choice, IntVal, ZERO


def rng_str(atoms):
    if not atoms:
        return "f[]"
    a = sorted(atoms)
    if len(a) == a[-1] - a[0] + 1:
        return "f[%d..%d)" % (a[0], a[-1] + 1)
    return "f{" + ",".join(str(x) for x in a[:12]) + ("..." if len(a) > 12 else "") + "}"


def leaf_pub(leaf, drop=1):
    """public dotted name of a leaf without the 'df' root"""
    return ".".join(leaf.path[drop:])


def is_identity(leaf, start, end):
    """value bits are exactly the slice f[start..end) MSB first (unsigned integer / bool leaf)"""
    v = leaf.value
    if not isinstance(v, IntVal) or v.bits is None:
        return False
    n = end - start
    for k in range(len(v.bits)):
        e = v.bits[k]
        if k < n:
            want = (1 << (end - 1 - k), 0)
            if e != want:
                return False
        elif e != ZERO:
            return False
    return True


def tile(leaves, ref_fields, allow_uncovered=()):
    """positional comparison with split tolerance. leaves: [(label, atoms)] in construction order; ref_fields:
    [(name, start, end)] ascending. Returns list of problem strings."""
    problems = []
    covered = {i: set() for i in range(len(ref_fields))}
    last_end = None
    for label, atoms in leaves:
        if not atoms:
            continue
        a = sorted(atoms)
        s, e = a[0], a[-1] + 1
        if len(a) != e - s:
            problems.append("%s reads non-contiguous bits %s" % (label, rng_str(atoms)))
            continue
        idx = None
        for i, (_n, rs, re_) in enumerate(ref_fields):
            if rs <= s < re_:
                idx = i
                break
        if idx is None:
            problems.append("%s reads %s outside every reference field" % (label, rng_str(atoms)))
            continue
        n, rs, re_ = ref_fields[idx]
        if e > re_:
            problems.append("%s reads %s straddling the boundary of reference field %s f[%d..%d)" % (label, rng_str(atoms), n, rs, re_))
            continue
        if covered[idx] & set(a):
            problems.append("%s reads %s overlapping a previous field inside %s" % (label, rng_str(atoms), n))
        if last_end is not None and s < last_end:
            problems.append("%s reads %s out of order (previous field ended at bit %d)" % (label, rng_str(atoms), last_end))
        last_end = e
        covered[idx] |= set(a)
    for i, (n, rs, re_) in enumerate(ref_fields):
        miss = set(range(rs, re_)) - covered[i]
        if miss and n not in allow_uncovered:
            problems.append("reference field %s f[%d..%d) is not (fully) decoded: missing %s" % (n, rs, re_, rng_str(miss)))
    return problems


_RUNS = {}


def decode_paths(prog, nbytes):
    key = (prog.tree_hash, prog.config, nbytes)
    if key not in _RUNS:
        run = decode.run_decode(prog, nbytes)
        oks, errs = decode.frame_paths(prog, run)
        for p in oks:
            p.label = decode.describe_path(p)
        _RUNS[key] = (run, oks, errs)
    return _RUNS[key]
