"""helpers shared by the layout rules"""
import re
from .. import decode
from ..ai.values import AdtVal, Choice, IntVal, ZERO


def rng_str(atoms):
    if not atoms:
        return "f[]"
    a = sorted(atoms)
    if len(a) == a[-1] - a[0] + 1:
        return "f[%d..%d)" % (a[0], a[-1] + 1)
    return "f{" + ",".join(str(x) for x in a[:12]) + ("..." if len(a) > 12 else "") + "}"


def leaf_pub(leaf, drop=1):
    """public dotted name of a leaf without the 'df' root"""
    return ".".join(leaf.path[drop:])


def is_identity(leaf, start, end):
    """value bits are exactly the slice f[start..end) MSB first (unsigned integer / bool leaf)"""
    v = leaf.value
    if not isinstance(v, IntVal) or v.bits is None:
        return False
    n = end - start
    for k in range(len(v.bits)):
        e = v.bits[k]
        if k < n:
            want = (1 << (end - 1 - k), 0)
            if e != want:
                return False
        elif e != ZERO:
            return False
    return True


def tile(leaves, ref_fields, allow_uncovered=()):
    """positional comparison with split tolerance. leaves: [(label, atoms)] in construction order; ref_fields:
    [(name, start, end)] ascending. Returns list of problem strings."""
    problems = []
    covered = {i: set() for i in range(len(ref_fields))}
    last_end = None
    # the X pulse position of a 13-bit identity code (7th bit) carries no information: a decoder need not look at it
    dont_care = {rs + 6 for n_, rs, re_ in ref_fields if n_ == "ID" and re_ - rs == 13}
    for label, atoms in leaves:
        if not atoms:
            continue
        a = sorted(atoms)
        s, e = a[0], a[-1] + 1
        if len(a) != e - s and dont_care:
            a = sorted(set(a) | {b for b in dont_care if s <= b < e})
            atoms = frozenset(a)
        if len(a) != e - s:
            problems.append("%s reads non-contiguous bits %s" % (label, rng_str(atoms)))
            continue
        idx = None
        for i, (_n, rs, re_) in enumerate(ref_fields):
            if rs <= s < re_:
                idx = i
                break
        if idx is None:
            problems.append("%s reads %s outside every reference field" % (label, rng_str(atoms)))
            continue
        n, rs, re_ = ref_fields[idx]
        if e > re_:
            problems.append("%s reads %s straddling the boundary of reference field %s f[%d..%d)" % (label, rng_str(atoms), n, rs, re_))
            continue
        if covered[idx] & set(a):
            problems.append("%s reads %s overlapping a previous field inside %s" % (label, rng_str(atoms), n))
        if last_end is not None and s < last_end:
            problems.append("%s reads %s out of order (previous field ended at bit %d)" % (label, rng_str(atoms), last_end))
        last_end = e
        covered[idx] |= set(a)
    for i, (n, rs, re_) in enumerate(ref_fields):
        miss = set(range(rs, re_)) - covered[i] - dont_care
        if miss and n not in allow_uncovered:
            problems.append("reference field %s f[%d..%d) is not (fully) decoded: missing %s" % (n, rs, re_, rng_str(miss)))
    return problems


_RUNS = {}


def decode_paths(prog, nbytes):
    key = (prog.tree_hash, prog.config, nbytes)
    if key not in _RUNS:
        run = decode.run_decode(prog, nbytes)
        oks, errs = decode.frame_paths(prog, run)
        for p in oks:
            p.label = decode.describe_path(p)
        _RUNS[key] = (run, oks, errs)
    return _RUNS[key]


# ------------------------------------------------------------------------------------------- tabulation
from fractions import Fraction
from ..ai.pathcond import eval_fact, eval_bx
from ..ai.values import FloatVal, fact_atoms
from ..ai.pathcond import facts_atoms


def eval_int(v, assign):
    if v.is_const():
        return v.lo
    if v.lin is not None:
        return v.lin.eval(assign)
    if v.bits is not None and all(e is not None for e in v.bits):
        x = 0
        for k, e in enumerate(v.bits):
            x |= eval_bx(e, assign) << k
        return x
    return None


def eval_term(t, assign):
    """exact rational value of a float term (None if it contains non-polynomial operators)"""
    if t is None:
        return None
    k = t[0]
    if k == "const":
        try:
            return Fraction(t[1])
        except (ValueError, TypeError):
            return None
    if k == "int":
        v = eval_int(t[1], assign)
        return Fraction(v) if v is not None else None
    if k == "fcast":
        return eval_term(t[2], assign)
    if k == "Neg":
        x = eval_term(t[1], assign)
        return -x if x is not None else None
    if k in ("Add", "Sub", "Mul", "Div"):
        a, b = eval_term(t[1], assign), eval_term(t[2], assign)
        if a is None or b is None:
            return None
        if k == "Add":
            return a + b
        if k == "Sub":
            return a - b
        if k == "Mul":
            return a * b
        return a / b if b != 0 else None
    return None


def eval_value(v, assign):
    if isinstance(v, IntVal):
        return eval_int(v, assign)
    if isinstance(v, FloatVal):
        if v.const is not None:
            return Fraction(v.const).limit_denominator(10 ** 9)
        return eval_term(v.term, assign)
    if isinstance(v, AdtVal) and not v.fields:
        return ("unit", v.vname)
    if isinstance(v, AdtVal) and v.vname in ("Some", "Ok") and len(v.fields) == 1:
        x = eval_value(v.fields[0], assign)
        return (v.vname, x)
    return None


def restrict_facts(fcts, aset):
    out = []
    for f in fcts:
        if f[0] == "or":
            conjs = tuple(tuple(restrict_facts(c, aset)) for c in f[1])
            out.append(("or", conjs))
        else:
            fa = facts_atoms([f])
            if fa and fa <= aset:
                out.append(f)
    return out


def tabulate(alternatives, atoms):
    """alternatives: [(facts, value)]; atoms: ordered list (MSB first). Returns (table: N -> value | ('AMBIG', set) | ('NONE',), problems)"""
    atoms = list(atoms)
    aset = frozenset(atoms)
    n = len(atoms)
    alts = [(restrict_facts(f, aset), v) for f, v in alternatives]
    table = {}
    for N in range(1 << n):
        assign = {a: (N >> (n - 1 - i)) & 1 for i, a in enumerate(atoms)}
        vals = set()
        inexact = False
        for fcts, v in alts:
            ok = True
            for f in fcts:
                r = eval_fact(f, assign)
                if r is False:
                    ok = False
                    break
            if not ok:
                continue
            x = eval_value(v, assign)
            if x is None:
                inexact = True
            vals.add(x)
        if not vals:
            table[N] = ("NONE",)
        elif len(vals) > 1 or inexact:
            table[N] = ("AMBIG", vals)
        else:
            table[N] = vals.pop()
    return table


# ------------------------------------------------------------------------------------------- unsummarised callees
_CRATE_TOK = re.compile(r"(?:^|[<(\[ ,&])(?:mut |dyn |impl )?([a-z_][a-z_0-9]*)::")


def is_std_callee(name):
    """every crate named in the (resolved) callee path is core / alloc / std"""
    toks = set(_CRATE_TOK.findall(name))
    return bool(toks) and toks <= {"core", "alloc", "std"}


def unsummarised_policy(rep, names, what):
    """A callee without a transfer function is treated soundly for data flow (unknown result, everything reachable through its
    `&mut` arguments forgotten), so rules that need the forgotten facts report their own violation. Standard-library callees outside the
    may-panic list (clients.MAY_PANIC) are assumed total and are only listed; a callee from any other crate (deku, ...) whose effect
    is unknown makes the model of the decoder itself incomplete and is reported."""
    names = sorted(set(names))
    std = [n for n in names if is_std_callee(n)]
    other = [n for n in names if not is_std_callee(n)]
    if std:
        rep.info("%s: standard-library callees without a transfer function (result unknown, &mut arguments forgotten, assumed not to panic): %s" % (what, std[:8]))
        rep.extra.setdefault("std_callees_without_summary", [])
        rep.extra["std_callees_without_summary"] = sorted(set(rep.extra["std_callees_without_summary"]) | set(std))
    if other:
        rep.violation("AI", "unsummarised:%s" % other[0], "%s met callees outside the standard library that the analysis has no model for (the decoder model is incomplete): %s" % (what, other[:6]))


# ------------------------------------------------------------------------------------------- enum code tables
def enum_code_table(prog, adt):
    """variant name -> set of field values selecting it, by interpreting the enum's own deku reader on symbolic bits.
    Returns (nbits, table) or None when the enum has no context-free reader. A rejected value maps to '<rejected>'."""
    from ..ai import entry
    from ..ai.values import UNIT
    from ..ai.pathcond import facts_atoms
    rx = re.compile(r"^<%s as deku::DekuReader<'_>>::from_reader_with_ctx$" % re.escape(adt))
    fns = [k for k in prog.fns if rx.match(k)]
    if len(fns) != 1:
        return None
    ip, outs = entry.run_reader_fn(prog, fns[0], 14, 0, extra_args=[UNIT], merge_returns=False, max_seconds=30)
    alts = []
    for o in outs:
        rv = o.retval
        for d, v in (rv.alts if isinstance(rv, Choice) else [((), rv)]):
            alts.append((tuple(o.pc.log) + tuple(d), v))
    atoms = set()
    for fc, _v in alts:
        atoms |= facts_atoms(fc)
    n = (max(atoms) + 1) if atoms else 0
    tab = {}
    for fc, v in alts:
        name = "<rejected>"
        if isinstance(v, AdtVal) and v.vname == "Ok" and isinstance(v.fields[0], AdtVal):
            name = v.fields[0].vname
        tab.setdefault(name, set()).update(decode.id_values(fc, range(n)))
    return n, tab


def enum_tables_rule(rep, prog, rule_id, adts, text=None):
    from ..ref.enums import TABLES
    rid = rep.rule(rule_id, text or "each enumeration's variants are selected by exactly the field values the standard assigns to that meaning (name -> codes table)")
    n_ok = 0
    for adt in adts:
        nbits, want = TABLES[adt]
        short = adt.rsplit("::", 1)[1]
        if adt not in prog.adts:
            rep.violation(rule_id, "anchor:%s" % short, "anchor missing: enum %s" % adt)
            continue
        got = enum_code_table(prog, adt)
        if got is None:
            rep.violation(rule_id, "anchor:%s:reader" % short, "enum %s has no context-free deku reader to interpret" % adt)
            continue
        gb, gt = got
        n_ok += 1
        rep.instance(rid, short, sample={"enum": short, "bits": gb, "table": {k: sorted(v)[:8] for k, v in sorted(gt.items())}} if n_ok <= 2 else None)
        if gb != nbits:
            rep.violation(rule_id, "%s:width" % short, "%s is read from %d bit(s), the field is %d bit(s) wide" % (short, gb, nbits))
            continue
        want2 = {k: v for k, v in want.items() if v}
        if gt != want2:
            diffs = []
            for k in sorted(set(gt) | set(want2)):
                if gt.get(k, set()) != want2.get(k, set()):
                    diffs.append("%s: codes %s, standard %s" % (k, sorted(gt.get(k, set())), sorted(want2.get(k, set()))))
            rep.violation(rule_id, "%s:table" % short, "%s: the code table differs from the standard's: %s" % (short, "; ".join(diffs[:4])))
    rep.floor("enumerations tabulated (%s)" % rule_id, len(adts), n_ok)
