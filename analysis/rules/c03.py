"""C03 - checksum is the Mode S parity syndrome (table rule; interpreter rules are added below it)."""
from .. import facts
from ..ref import crc as refcrc


def table_rule(rep, prog):
    rid = rep.rule("R1", "evaluated CRC_TABLE equals (v*x^24) mod 0x1FFF409 entry by entry")
    c = None
    for path, cc in prog.consts.items():
        if path.startswith("adsb_deku::") and cc["ty"].get("k") == "array" and cc["ty"].get("len") == 256:
            c = cc
    if c is None:
        rep.violation("R1", "anchor:crc-table", "no 256-entry constant table found in adsb_deku (anchor missing)")
        return
    b = c["value"].get("bytes")
    if not b or len(b) != 1024:
        rep.violation("R1", "anchor:crc-table-value", "CRC table could not be evaluated")
        return
    vals = [b[4 * i] | (b[4 * i + 1] << 8) | (b[4 * i + 2] << 16) | (b[4 * i + 3] << 24) for i in range(256)]
    ref = refcrc.table()
    bad = [i for i in range(256) if vals[i] != ref[i]]
    for i in range(256):
        rep.instance(rid, "entry%d" % i, nontrivial=(i != 0), sample={"index": i, "value": hex(vals[i]), "ref": hex(ref[i])} if i in (1, 255) else None)
    if bad:
        rep.violation("R1", "table:%s" % c["path"],
                      "%d table entr(ies) differ from the generator's remainder table, first: [%d]=%#x expected %#x" % (len(bad), bad[0], vals[bad[0]], ref[bad[0]]),
                      site="%s:%s" % (c["span"]["file"], c["span"]["lo"][0]))
    rep.floor("crc-table-entries", 256, len(vals))


def run(rep, tier, replay=None):
    prog = facts.load("std")
    table_rule(rep, prog)
    return rep.finish("R1: the evaluated 256-entry remainder table equals the table derived from generator 0x1FFF409 (all 256 entries).")
