"""C03 - checksum is the Mode S parity syndrome."""
from .. import facts
from ..ai.values import IntVal, ZERO
from ..ai.pathcond import PathCond
from ..ref import crc as refcrc
from ..ref import layout as L
from .common import decode_paths, rng_str


def table_rule(rep, prog):
    rid = rep.rule("R1", "evaluated CRC_TABLE equals (v*x^24) mod 0x1FFF409 entry by entry")
    c = None
    for path, cc in prog.consts.items():
        if path.startswith("adsb_deku::") and cc["ty"].get("k") == "array" and cc["ty"].get("len") == 256:
            c = cc
    if c is None:
        rep.violation("R1", "anchor:crc-table", "no 256-entry constant table found in adsb_deku (anchor missing)")
        return
    b = c["value"].get("bytes")
    if not b or len(b) != 1024:
        rep.violation("R1", "anchor:crc-table-value", "CRC table could not be evaluated")
        return
    vals = [b[4 * i] | (b[4 * i + 1] << 8) | (b[4 * i + 2] << 16) | (b[4 * i + 3] << 24) for i in range(256)]
    ref = refcrc.table()
    bad = [i for i in range(256) if vals[i] != ref[i]]
    for i in range(256):
        rep.instance(rid, "entry%d" % i, nontrivial=(i != 0), sample={"index": i, "value": hex(vals[i]), "ref": hex(ref[i])} if i in (1, 255) else None)
    if bad:
        rep.violation("R1", "table:%s" % c["path"],
                      "%d table entr(ies) differ from the generator's remainder table, first: [%d]=%#x expected %#x" % (len(bad), bad[0], vals[bad[0]], ref[bad[0]]),
                      site="%s:%s" % (c["span"]["file"], c["span"]["lo"][0]))
    rep.floor("crc-table-entries", 256, len(vals))


def syndrome_rule(rep, prog, nbytes_list):
    rid = rep.rule("R2-R4", "Frame.crc, as GF(2)-affine forms over the frame bits, equals the syndrome M(x) mod 0x1FFF409 of the first 56/112 bits on every grammar path "
                            "(covers the byte step, loop bounds, tail XOR, the checksum window across identifier re-reads and the length selection)")
    ref = {56: refcrc.syndrome_bits(56), 112: refcrc.syndrome_bits(112)}
    n_paths = 0
    for nb in nbytes_list:
        run, oks, errs = decode_paths(prog, nb)
        for p in oks:
            n_paths += 1
            crc = p.crc
            lens = set(L.frame_bits(i) for i in p.ids)
            what = "%s|N=%d" % (p.label, nb)
            if len(lens) != 1:
                rep.violation("R2-R4", "%s:mixed-lengths" % p.label, "grammar path %s covers DF ids of both lengths %s" % (p.label, p.ids))
                continue
            Lb = lens.pop()
            rep.instance(rid, what, sample={"path": p.label, "frame_bits": Lb, "crc_bit0": _bx(crc, 0)} if n_paths in (1, 40) else None)
            if not isinstance(crc, IntVal) or crc.bits is None or any(e is None for e in crc.bits):
                rep.violation("R2-R4", "%s:crc-inexact" % p.label.split("/")[0],
                              "checksum on path %s is not an exact GF(2) form (%r): the routine is no longer analysable as a linear map" % (p.label, crc))
                continue
            bad = []
            pc = PathCond()
            for f in p.facts:
                if f[0] == "lin":
                    pc.add_lin(f[1], f[2], record=False)
            for j in range(len(crc.bits)):
                want = (ref[Lb][j], 0) if j < 24 else ZERO
                if pc.reduce(crc.bits[j]) != pc.reduce(want):
                    bad.append(j)
            if bad:
                j = bad[0]
                got = crc.bits[j]
                want = ref[Lb][j] if j < 24 else 0
                diff = got[0] ^ want
                from ..ai.values import mask_atoms
                rep.violation("R2-R4", "%s:syndrome-mismatch" % p.label.split("/")[0],
                              "checksum bit(s) %s on path %s differ from the syndrome of f[0..%d): e.g. bit %d differs in frame bits %s%s"
                              % (bad[:6], p.label, Lb, j, mask_atoms(diff)[:12], " and a constant" if got[1] else ""),
                              detail={"path": p.label, "bits": bad})
    rep.floor("grammar paths with a checksum", 60, n_paths)


def _bx(v, j):
    from ..ai.values import bx_str
    if isinstance(v, IntVal) and v.bits is not None:
        s = bx_str(v.bits[j])
        return s[:80]
    return "?"


def run(rep, tier, replay=None):
    prog = facts.load("std")
    table_rule(rep, prog)
    syndrome_rule(rep, prog, [14, 16] if tier == "quick" else [7, 14, 16, 17])
    # the checksum window is the bytes actually consumed, however the source segments them
    from . import c19
    from .common import decode_paths
    run_, oks, errs = decode_paths(prog, 14)
    scheds = [("one-byte-reads", [1] * 64)] + ([("interrupted-before-every-read", ["interrupted", 14] * 40)] if tier == "thorough" else [])
    c19.schedule_rule(rep, prog, oks, scheds, rule="R5", crc_only=True,
                      text="the checksum window is exactly the first 7/14 bytes consumed, independent of how the byte source segments its reads: under a one-byte-per-read source every grammar path reports the same checksum (deviation from the reference syndrome) as slice decoding")
    rep.assume("the <=5-bit-error / <=24-bit-burst detection clause is a mathematical consequence of the generator polynomial and is not machine-checked")
    rep.assume("deku reader semantics and Vec/slice operations as summarised in analysis/ai")
    return rep.finish(
        "R1: the evaluated 256-entry table equals the remainder table of generator 0x1FFF409 (and is GF(2)-affine in its index, which the "
        "interpreter re-verifies before using it). R2-R4: abstract interpretation of Frame::from_bytes with every frame bit an atom yields "
        "Frame.crc as 24 XOR-forms over the 56/112 frame bits on every grammar path; each form must equal the reference syndrome "
        "M(x) mod G. This decides the byte step, masks, loop range, tail XOR, the reconstruction of the checksum window across identifier "
        "re-reads and the format-dependent length, for all frames at once. R5: the same comparison through Frame::from_reader over a scripted one-byte-per-read source.")
