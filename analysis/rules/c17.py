"""C17 - no operator action or terminal size crashes radar; quit restores the terminal (structural skeleton)."""
import re

from .. import facts
from ..ai import entry
from ..ai.interp import State
from ..ai.values import AdtVal, Choice, Opaque, RefVal
from ..cfg import cfg_of
from .clients import blocks_calling, calls, closure_mentions, panic_sites, site_where, is_external_macro, line_of, reachable_fns, fn_text

UI_ROOTS = ["radar::handle_keyevent", "radar::handle_mouseevent", "radar::draw", "radar::stats::Stats::update", "radar::coverage::populate_coverage"]

# panic sites tolerated in the UI code: (function (public path, closures folded), kind:detail) -> reason
ALLOW = {
    ("radar::handle_keyevent", "assert:Overflow:Add:usize"): "selected + 1 on a usize row index: needs 2^64 key presses",
    ("radar::handle_mouseevent", "call:slice-index"): "btr[0..2] / bottom_chunks[1]: vectors built by draw() from Layout::split over literal constraint lists of length >= 3 / 2",
    ("radar::handle_mouseevent", "assert:Overflow:Add:u16"): "Rect.y + Rect.height of a layout rectangle inside the u16 terminal area",
    ("radar::airplanes::build_tab_airplanes", "call:unwrap"): "get(*key) for a key just yielded by keys() of the same immutably borrowed map",
    ("radar::airplanes::build_tab_airplanes", "assert:BoundsCheck"): "chunks[1]: Layout::split over a two-element constraint list",
    ("radar::stats::build_tab_stats", "call:unwrap"): "constant time-format description; position/distance of the farthest aircraft are Some together (C14 R3); formatting an OffsetDateTime with that description",
    ("radar::stats::build_tab_stats", "assert:BoundsCheck"): "chunks[1]: Layout::split over a two-element constraint list",
    ("radar::stats::Stats::update", "assert:Overflow:Add:u32"): "total_airplanes += 1 on u32: needs 2^32 newly added aircraft",
    ("radar::map::build_tab_map", "assert:BoundsCheck"): "chunks[1]: Layout::split over a two-element constraint list",
    ("radar::coverage::build_tab_coverage", "assert:BoundsCheck"): "chunks[1]: Layout::split over a two-element constraint list",
    ("radar::help::build_tab_help", "assert:BoundsCheck"): "chunks[1]: Layout::split over a two-element constraint list",
    ("radar::draw", "assert:BoundsCheck"): "chunks[0]/chunks[1]/bottom_chunks[..]: Layout::split over literal constraint lists",
    ("radar::draw", "call:slice-index"): "vectors returned by Layout::split over literal constraint lists",
    ("radar::draw", "call:unwrap"): "terminal.draw(): an I/O error of the terminal backend is outside the property (operator actions)",
    ("radar::draw_bottom_chunks", "assert:BoundsCheck"): "Layout::split over literal constraint lists",
    ("radar::coverage::populate_coverage", "assert:Overflow:Add:u32"): "per-cell hit counter (u32): one increment per different aircraft seen at the cell",
    ("radar::coverage::build_tab_coverage", "assert:Overflow:Mul:u32"): "100 + seen_number * 50 on the u32 per-cell counter: needs 85 million different aircraft at one cell",
    ("radar::coverage::build_tab_coverage", "assert:Overflow:Add:u32"): "100 + seen_number * 50 on the u32 per-cell counter: needs 85 million different aircraft at one cell",
}


# number of sites each allow-listed reason was confirmed for (default 1)
ALLOW_COUNT = {
    ("radar::draw_bottom_chunks", "assert:BoundsCheck"): 5,
    ("radar::handle_mouseevent", "assert:Overflow:Add:u16"): 3,
    ("radar::handle_mouseevent", "call:slice-index"): 10,
    ("radar::help::build_tab_help", "assert:BoundsCheck"): 5,       # chunks[1], horizontal_chunks[1], vertical_chunks[1..3] of 3- and 5-element lists
    ("radar::stats::build_tab_stats", "call:unwrap"): 5,
}


SHAPE_COUNT = {"rect-index": 25, "rect-coordinate-sum": 3}     # counted on the pinned tree (each covered by a listed reason above)


def pub_fn(path):
    return re.sub(r"(::\{closure#\d+\})+$", "", path)


def always_performs(prog, path, pred, depth=0, memo=None):
    """the workspace function `path` calls something matching pred (directly or through a function that always does) on every path
    from its entry to a successful return (an `Ok(..)` return for functions returning Result, any return otherwise)"""
    memo = {} if memo is None else memo
    if path in memo:
        return memo[path]
    memo[path] = False
    g = prog.fns.get(path)
    if g is None or depth > 3:
        return False
    gcfg = cfg_of(g)
    through = blocks_calling(g, lambda p, full, c: pred(p, full, c) or (p in prog.fns and always_performs(prog, p, pred, depth + 1, memo)))
    rets = []
    is_result = isinstance(g["locals"][0]["ty"], dict) and g["locals"][0]["ty"].get("path") == "core::result::Result"
    for i, b in enumerate(g["blocks"]):
        if is_result:
            for s in b["stmts"]:
                if "assign" in s and s["assign"][0]["local"] == 0 and not s["assign"][0]["proj"]:
                    ag = s["assign"][1].get("aggregate") if isinstance(s["assign"][1], dict) else None
                    if ag and ag.get("adt") == "core::result::Result" and ag.get("variant") == 0:
                        rets.append(i)
        elif b["term"] and "return" in b["term"]:
            rets.append(i)
    if not through or not rets:
        return False
    okk = all(gcfg.all_paths_pass(0, [r], through)[0] for r in rets if r in gcfg.reachable(0))
    memo[path] = okk
    return okk


def teardown_rule(rep, prog):
    rid = rep.rule("R1", "every path of radar::main that returns Ok(()) after the terminal was put into raw mode passes disable_raw_mode, DisableMouseCapture and show_cursor")
    fn = prog.fns.get("radar::main")
    if fn is None:
        rep.violation("R1", "anchor:radar::main", "anchor missing: radar::main")
        return
    cfg = cfg_of(fn)
    setup = blocks_calling(fn, lambda p, full, c: p == "crossterm::terminal::enable_raw_mode")
    def via(pred):
        # a direct call, or a call of a workspace helper that performs it on each of its successful paths
        return blocks_calling(fn, lambda p, full, c: pred(p, full, c) or (p in prog.fns and p != fn["path"] and always_performs(prog, p, pred)))
    raw_off = via(lambda p, full, c: p == "crossterm::terminal::disable_raw_mode")
    cursor = via(lambda p, full, c: p.endswith("Terminal::<B>::show_cursor"))
    mouse_off = via(lambda p, full, c: "DisableMouseCapture" in full or closure_mentions(prog, c, "DisableMouseCapture"))
    ok_returns = []
    for i, b in enumerate(fn["blocks"]):
        for s in b["stmts"]:
            if "assign" in s and s["assign"][0]["local"] == 0 and not s["assign"][0]["proj"]:
                ag = s["assign"][1].get("aggregate") if isinstance(s["assign"][1], dict) else None
                if ag and ag.get("adt") == "core::result::Result" and ag.get("variant") == 0:
                    ok_returns.append(i)
    rep.instance(rid, "sites", sample={"enable_raw_mode": setup, "disable_raw_mode": raw_off, "show_cursor": cursor, "disable_mouse": mouse_off, "ok_return_blocks": ok_returns})
    if not setup or not ok_returns:
        rep.violation("R1", "anchor:terminal-setup", "radar::main: cannot find enable_raw_mode / an Ok(()) return")
        return
    start = fn["blocks"][setup[0]]["term"]["call"]["target"]
    for what, through in (("disable_raw_mode", raw_off), ("DisableMouseCapture", mouse_off), ("show_cursor", cursor)):
        for r in ok_returns:
            if r not in cfg.reachable(start):
                continue
            ok, wit = cfg.all_paths_pass(start, [r], through)
            rep.instance(rid, "%s|ret%d" % (what, r))
            if not ok:
                lines = [line_of(fn, b) for b in wit if line_of(fn, b)]
                rep.violation("R1", "main:ok-exit-without:%s" % what,
                              "radar::main can return Ok(()) at %s without %s after the terminal was set up (raw mode / mouse capture stay on): path ... %s" % (
                                  site_of_block(fn, r), what, [x for i, x in enumerate(lines) if i == 0 or lines[i - 1] != x][-5:]), site=site_of_block(fn, r))
                break
    rep.floor("Ok(()) exits of radar::main", 1, len(ok_returns))


def quit_reason_rule(rep, prog):
    rid = rep.rule("R1b", "the quit reason that the clean-up unwraps is still set when the main loop is left: main resets `settings.quit` to None only once a new connection exists (under the Some arm of the reconnect result), and the reconnect helper returns Ok(None) only after setting it")
    fn = prog.fns.get("radar::main")
    helper = prog.fns.get("radar::init_tcp_reader")
    if fn is None or helper is None:
        rep.violation("R1b", "anchor:reconnect", "anchor missing: radar::main / radar::init_tcp_reader")
        return
    cfg = cfg_of(fn)

    def quit_writes(f):
        """[(block, 'Some' | 'None' | '?')] assignments to a place ending in the field `quit`"""
        tmp = {}
        out = []
        for bi, b in enumerate(f["blocks"]):
            for s_ in b["stmts"]:
                if "assign" not in s_:
                    continue
                pl, rv = s_["assign"]
                what = "?"
                ag = rv.get("aggregate") if isinstance(rv, dict) else None
                if ag and ag.get("kind") == "adt" and ag.get("adt") == "core::option::Option":
                    what = "Some" if ag.get("variant") == 1 else "None"
                elif isinstance(rv, dict) and "use" in rv:
                    u = rv["use"].get("copy") or rv["use"].get("move")
                    if u is not None and not u["proj"]:
                        what = tmp.get(u["local"], "?")
                    elif "const" in rv["use"] and str(rv["use"]["const"].get("text", "")).endswith("None"):
                        what = "None"
                if not pl["proj"]:
                    tmp[pl["local"]] = what
                elif pl["proj"][-1].get("name") == "quit":
                    out.append((bi, what))
        return out
    # the Some arm of the match on the reconnect result
    rty = helper["locals"][0]["ty"]
    inner = None
    try:
        inner = rty["args"][0]          # Result<Option<X>, E> -> Option<X>
    except Exception:
        pass
    some_targets = []
    for bi, b in enumerate(fn["blocks"]):
        t = b["term"]
        if not (t and "switch" in t):
            continue
        for s_ in b["stmts"]:
            if "assign" in s_ and isinstance(s_["assign"][1], dict) and "discr" in s_["assign"][1]:
                pl = s_["assign"][1]["discr"]
                if not pl["proj"] and fn["locals"][pl["local"]]["ty"] == inner:
                    tm = {v: tb for v, tb in t["switch"]["targets"]}
                    st_ = tm.get(1, t["switch"]["otherwise"] if 1 not in tm else None)
                    if st_ is not None:
                        some_targets.append(st_)
    # only the reconnect inside the main loop counts (the first connection is made before the loop and dominates everything)
    in_loops = set()
    for tail, head in cfg.back_edges():
        in_loops |= set(cfg.natural_loop(tail, head))
    loop_calls = [i for i, p_, full, c in calls(fn) if p_ == "radar::init_tcp_reader" and i in in_loops]
    some_targets = [t_ for t_ in some_targets if any(cfg.dominates(c_, t_) for c_ in loop_calls)]
    writes = quit_writes(fn)
    nones = [b for b, w in writes if w != "Some"]
    rep.instance(rid, "main", sample={"writes_of_quit": writes, "some_arms_of_reconnect": some_targets})
    if not some_targets:
        rep.violation("R1b", "anchor:reconnect-match", "cannot find the match on the reconnect helper's result in radar::main")
    for b in nones:
        if not any(cfg.dominates(t_, b) for t_ in some_targets):
            rep.violation("R1b", "main:quit-reset-without-connection", "radar::main clears the quit reason at %s on a path that does not have a new connection: if the operator quits at the reconnect screen the clean-up's unwrap() of the quit reason panics before the terminal is restored" % site_of_block(fn, b), site=site_of_block(fn, b))
    # helper contract: every Ok(None) return is preceded by a write of Some(..) to quit with no later None
    hw = quit_writes(helper)
    hcfg = cfg_of(helper)
    somes = [b for b, w in hw if w == "Some"]
    none_rets = []
    for bi, b in enumerate(helper["blocks"]):
        for s_ in b["stmts"]:
            if "assign" in s_ and isinstance(s_["assign"][1], dict):
                ag = s_["assign"][1].get("aggregate")
                if ag and ag.get("adt") == "core::result::Result" and ag.get("variant") == 0 and not s_["assign"][0]["proj"] and s_["assign"][0]["local"] == 0:
                    # Ok(x): is x the None built just before?
                    none_rets.append(bi)
    rep.instance(rid, "helper", sample={"helper_sets_quit_in_blocks": somes, "ok_returns": none_rets})
    if not somes:
        rep.violation("R1b", "helper:never-sets-quit", "radar::init_tcp_reader never sets the quit reason, yet main relies on it being set when Ok(None) is returned")
    if any(w == "None" for _b, w in hw):
        rep.violation("R1b", "helper:clears-quit", "radar::init_tcp_reader clears the quit reason")
    # the contract itself, path by path: whatever the quit reason was on entry, a return of Ok(None) leaves a reason set
    from .c16 import reconnect_outcomes
    for initial in (None, "TcpDisconnect"):
        res, _ip = reconnect_outcomes(prog, initial)
        if res is None:
            rep.violation("R1b", "anchor:reconnect-helper", "radar::init_tcp_reader / radar::Settings.quit not found in the expected shape")
            break
        rep.instance(rid, "helper-paths|%s" % initial, sample={"entered with quit": str(initial), "outcomes": sorted(set("%s/%s" % r for r in res))})
        if any(k == "Ok(None)" and q is None for k, q in res):
            rep.violation("R1b", "helper:gives-up-without-reason", "radar::init_tcp_reader (entered with quit = %s) returns Ok(None) on a path that leaves the quit reason unset: main leaves its loop and the clean-up's unwrap() of the reason panics before the terminal is restored" % initial)


def site_of_block(fn, b):
    for s in fn["blocks"][b]["stmts"]:
        sp = s.get("span")
        if sp:
            return "%s:%s" % (sp.get("cs_file") or sp.get("file"), (sp.get("cs_lo") or sp.get("lo") or [0])[0])
    return line_of(fn, b)


def _ty_mentions(t, needle):
    return needle in repr(t)


def rect_shape(fn, blk, kind, detail):
    """the site indexes a collection of layout rectangles with a literal index, or adds two u16 coordinates of a rectangle: the
    reasons recorded for those sites (Layout::split over literal constraint lists; coordinates inside the u16 terminal area) do
    not depend on which function the code sits in"""
    b = fn["blocks"][blk]
    t = b["term"] or {}
    RECT = "rect::Rect"
    if kind == "call" and detail == "slice-index" and "call" in t:
        args = t["call"]["args"]
        a0 = (args[0].get("move") or args[0].get("copy")) if args else None
        idx_const = len(args) > 1 and "const" in args[1]
        return bool(a0) and _ty_mentions(fn["locals"][a0["local"]]["ty"], RECT) and idx_const
    if kind == "assert" and detail.startswith("BoundsCheck") and "assert" in t:
        d = t["assert"].get("detail") or {}
        idx = d.get("index") or {}
        mentions = any(_ty_mentions(l["ty"], RECT) for l in [fn["locals"][x] for x in _locals_of(b)])
        return mentions and ("const" in idx or _is_const_local(fn, blk, idx))
    if kind == "assert" and detail == "Overflow:Add:u16" and "assert" in t:
        for s_ in b["stmts"]:
            if "assign" in s_ and isinstance(s_["assign"][1], dict) and "bin_ovf" in s_["assign"][1]:
                ops = s_["assign"][1]["bin_ovf"][1:]
                names = []
                for o in ops:
                    pl = o.get("copy") or o.get("move")
                    if pl is None:
                        return False
                    names.append(_origin_field(fn, blk, pl))
                return all(nm in ("x", "y", "width", "height") for nm in names)
    return False


def _locals_of(b):
    out = set()

    def rec(x):
        if isinstance(x, dict):
            if isinstance(x.get("local"), int):
                out.add(x["local"])
            for v in x.values():
                rec(v)
        elif isinstance(x, list):
            for v in x:
                rec(v)
    rec(b["stmts"])
    rec(b["term"])
    return out


def _is_const_local(fn, blk, op):
    pl = op.get("copy") or op.get("move") if isinstance(op, dict) else None
    if not pl or pl["proj"]:
        return False
    for s_ in fn["blocks"][blk]["stmts"]:
        if "assign" in s_ and not s_["assign"][0]["proj"] and s_["assign"][0]["local"] == pl["local"]:
            rv = s_["assign"][1]
            return isinstance(rv, dict) and "use" in rv and "const" in rv["use"]
    return False


def _origin_field(fn, blk, pl, depth=0):
    """name of the struct field a (possibly copied, through single-assignment temporaries) operand was read from"""
    names = [pj.get("name") for pj in pl["proj"] if "field" in pj]
    if names:
        return names[-1]
    if depth > 3:
        return None
    found = []
    for b_ in fn["blocks"]:
        for s_ in b_["stmts"]:
            if "assign" in s_ and not s_["assign"][0]["proj"] and s_["assign"][0]["local"] == pl["local"]:
                rv = s_["assign"][1]
                u = (rv.get("use") or {}) if isinstance(rv, dict) else {}
                src = u.get("copy") or u.get("move")
                nm = [pj.get("name") for pj in src["proj"] if "field" in pj] if src else []
                if src and not nm and not src["proj"]:
                    found.append(_origin_field(fn, blk, src, depth + 1))
                else:
                    found.append(nm[-1] if nm else None)
    # a temporary assigned in one place only (compiler temporaries are)
    return found[0] if len(found) == 1 else None


def _assign_counts(fn):
    c = fn.get("_assign_counts")
    if c is None:
        c = {}
        borrowed = set()
        for b_ in fn["blocks"]:
            for s_ in b_["stmts"]:
                if "assign" in s_:
                    pl, rv = s_["assign"]
                    c[pl["local"]] = c.get(pl["local"], 0) + 1
                    if isinstance(rv, dict):
                        for k in ("ref", "addr_of"):
                            if k in rv and rv[k].get("mut", True):
                                borrowed.add(rv[k]["place"]["local"])
            t_ = b_["term"] or {}
            if "call" in t_:
                d_ = t_["call"]["dest"]["local"]
                c[d_] = c.get(d_, 0) + 1
        for l_ in borrowed:
            c[l_] = c.get(l_, 0) + 2      # may change through the reference: never a fixed value
        fn["_assign_counts"] = c
    return c


def _proj_key(proj):
    out = []
    for pj in proj:
        if "field" in pj:
            out.append(("f", pj["field"]))
        elif "downcast" in pj or "variant" in pj:
            out.append(("v", pj.get("downcast", pj.get("variant"))))
        elif "deref" in pj:
            out.append(("d",))
        else:
            return None
    return tuple(out)


def _single_def(fn, l_):
    """the one statement that assigns local l_ (whole), or None"""
    found = None
    for b_ in fn["blocks"]:
        for s_ in b_["stmts"]:
            if "assign" in s_ and not s_["assign"][0]["proj"] and s_["assign"][0]["local"] == l_:
                if found is not None:
                    return None
                found = s_["assign"][1]
    return found


def _root_place(fn, pl, depth=0):
    """canonical (base local, projection) of a place read: copies through single-assignment temporaries and shared references
    (`_r = &place; .. *(_r)`) are followed back to the place they stand for. The base local has one fixed value (assigned once / never
    reassigned argument, never mutably borrowed). None for anything else."""
    if pl is None or depth > 8:
        return None
    cnt = _assign_counts(fn)
    l_ = pl["local"]
    proj = list(pl["proj"])
    fixed = cnt.get(l_, 0) == 1 or (cnt.get(l_, 0) == 0 and 1 <= l_ <= fn.get("arg_count", 0))
    if not fixed:
        return None
    if cnt.get(l_, 0) == 1:
        rv = _single_def(fn, l_)
        if isinstance(rv, dict):
            src = None
            if "use" in rv and ("copy" in rv["use"] or "move" in rv["use"]):
                src = rv["use"].get("copy") or rv["use"].get("move")
            elif "ref" in rv and not rv["ref"].get("mut") and proj and "deref" in proj[0]:
                src = rv["ref"]["place"]
                proj = proj[1:]
            if src is not None:
                r_ = _root_place(fn, {"local": src["local"], "proj": list(src["proj"]) + proj}, depth + 1)
                if r_ is not None:
                    return r_
                return None if ("ref" in rv) else (l_, _proj_key(proj)) if _proj_key(proj) is not None else None
    k = _proj_key(proj)
    return (l_, k) if k is not None else None


def _root_local(fn, opnd, depth=0):
    """identity of the value an operand reads (see _root_place); None for constants and anything that may change"""
    pl = (opnd.get("copy") or opnd.get("move")) if isinstance(opnd, dict) else None
    return _root_place(fn, pl) if pl is not None else None


def _operand_range(fn, opnd, depth=0):
    """(lo, hi) of an integer operand when it is a constant, or a value widened from a narrower unsigned type
    (`i32::from(u16)`, `x as i32` from u8/u16/bool) through single-assignment temporaries; None otherwise"""
    c = _const_int(opnd) if isinstance(opnd, dict) else None
    if c is not None:
        return (c, c)
    pl = (opnd.get("copy") or opnd.get("move")) if isinstance(opnd, dict) else None
    if pl is None or pl["proj"] or depth > 6:
        return None
    l_ = pl["local"]
    if _assign_counts(fn).get(l_, 0) != 1:
        return None
    rv = _single_def(fn, l_)
    if isinstance(rv, dict):
        if "use" in rv:
            return _operand_range(fn, rv["use"], depth + 1)
        if "cast" in rv:
            c_ = rv["cast"]
            src = c_[1] if isinstance(c_, list) and len(c_) > 1 else (c_.get("operand") if isinstance(c_, dict) else None)
            spl = (src.get("copy") or src.get("move")) if isinstance(src, dict) else None
            if spl is not None and not spl["proj"]:
                ty = fn["locals"][spl["local"]]["ty"]
                if ty.get("k") == "int" and not ty.get("signed") and not ty.get("ptr") and ty.get("bits", 64) <= 32:
                    return (0, (1 << ty["bits"]) - 1)
                if ty.get("k") == "bool":
                    return (0, 1)
        return None
    # result of a call: the widening From impls
    for b_ in fn["blocks"]:
        t_ = b_["term"] or {}
        if "call" in t_ and t_["call"]["dest"]["local"] == l_ and not t_["call"]["dest"]["proj"]:
            cal = t_["call"]["callee"]
            m = re.match(r"^core::convert::num::<impl core::convert::From<(u8|u16|u32|bool)> for (i16|i32|i64|i128|isize|u16|u32|u64|u128|usize)>::from$", cal.get("resolved") or "")
            if m:
                return (0, {"u8": 255, "u16": 65535, "u32": (1 << 32) - 1, "bool": 1}[m.group(1)])
    return None


def _const_int(opnd):
    c = opnd.get("const") if isinstance(opnd, dict) else None
    return c.get("int") if isinstance(c, dict) and isinstance(c.get("int"), int) else None


def lower_bound_from_guards(fn, blk, root):
    """largest k such that a comparison of `root` (a local with one fixed value) with a constant, on a branch edge that dominates
    block `blk`, implies root >= k (unsigned operands); 0 if none"""
    cfg = cfg_of(fn)
    best = 0
    for d_ in range(len(fn["blocks"])):
        b_ = fn["blocks"][d_]
        t_ = b_["term"] or {}
        if "switch" not in t_ or d_ == blk or not cfg.dominates(d_, blk):
            continue
        disc = t_["switch"]["discr"] if "discr" in t_["switch"] else t_["switch"].get("operand")
        dpl = (disc.get("copy") or disc.get("move")) if isinstance(disc, dict) else None
        if dpl is None or dpl["proj"]:
            continue
        cmp_ = None
        for s_ in b_["stmts"]:
            if "assign" in s_ and not s_["assign"][0]["proj"] and s_["assign"][0]["local"] == dpl["local"]:
                rv = s_["assign"][1]
                if isinstance(rv, dict) and "bin" in rv and rv["bin"][0] in ("Eq", "Ne", "Lt", "Le", "Gt", "Ge"):
                    cmp_ = rv["bin"]
        if cmp_ is None:
            continue
        op, x, y = cmp_
        swap = {"Eq": "Eq", "Ne": "Ne", "Lt": "Gt", "Gt": "Lt", "Le": "Ge", "Ge": "Le"}
        if _root_local(fn, x) == root and _const_int(y) is not None:
            k = _const_int(y)
        elif _root_local(fn, y) == root and _const_int(x) is not None:
            k = _const_int(x)
            op = swap[op]
        else:
            continue
        targets = t_["switch"]["targets"]
        other = t_["switch"]["otherwise"]
        for truth, succ in [(bool(v), tb) for v, tb in targets] + [(None, other)]:
            if truth is None:
                vals = {v for v, _tb in targets}
                truth = True if vals == {0} else (False if vals == {1} else None)
                if truth is None:
                    continue
            # the edge d_ -> succ dominates blk when succ dominates blk and succ is entered from d_ only
            if succ == blk or cfg.dominates(succ, blk):
                if cfg.pred[succ] != [d_] or sum(1 for x_ in cfg.succ[d_] if x_ == succ) != 1 or ([tb for _v, tb in targets] + [other]).count(succ) != 1:
                    continue
                lb = 0
                if (op, truth) in (("Eq", False), ("Ne", True)) and k == 0:
                    lb = 1
                elif (op, truth) in (("Gt", True), ("Le", False)):
                    lb = k + 1
                elif (op, truth) in (("Ge", True), ("Lt", False)):
                    lb = k
                elif (op, truth) in (("Eq", True), ("Ne", False)):
                    lb = k
                best = max(best, lb)
    return best


def _base_local(fn, opnd, depth=0):
    """the (possibly mutable) local whose current value an operand reads, through single-assignment copy temporaries"""
    pl = (opnd.get("copy") or opnd.get("move")) if isinstance(opnd, dict) else None
    if pl is None or pl["proj"] or depth > 6:
        return None
    l_ = pl["local"]
    if _assign_counts(fn).get(l_, 0) == 1:
        rv = _single_def(fn, l_)
        if isinstance(rv, dict) and "use" in rv and ("copy" in rv["use"] or "move" in rv["use"]):
            src = rv["use"].get("copy") or rv["use"].get("move")
            if not src["proj"]:
                r_ = _base_local(fn, rv["use"], depth + 1)
                return r_ if r_ is not None else l_
    return l_


def _region(fn, start, site, avoid):
    """blocks on some path start -> site that does not pass through `avoid`"""
    cfg = cfg_of(fn)
    fwd = cfg.reachable(start, avoid=[avoid])
    back = set()
    st_ = [site]
    while st_:
        b_ = st_.pop()
        if b_ in back or b_ == avoid:
            continue
        back.add(b_)
        st_.extend(cfg.pred[b_])
    return fwd & back


def _writes_local(fn, blocks, l_, skip_block_term=None):
    for b_ in blocks:
        bb = fn["blocks"][b_]
        for s_ in bb["stmts"]:
            if "assign" in s_:
                pl, rv = s_["assign"]
                if pl["local"] == l_:
                    return True
                if isinstance(rv, dict):
                    for k in ("ref", "addr_of"):
                        if k in rv and rv[k]["place"]["local"] == l_ and rv[k].get("mut", True):
                            return True
        t_ = bb["term"] or {}
        if "call" in t_ and t_["call"]["dest"]["local"] == l_:
            return True
    return False


def less_than_guards(fn, blk, base):
    """[(guard block, successor, other operand)] for branch edges dominating `blk` on which `base < other` holds, `base` (a local,
    possibly mutable) being written nowhere between that edge and `blk`"""
    cfg = cfg_of(fn)
    out = []
    for d_ in range(len(fn["blocks"])):
        b_ = fn["blocks"][d_]
        t_ = b_["term"] or {}
        if "switch" not in t_ or d_ == blk or not cfg.dominates(d_, blk):
            continue
        dpl = t_["switch"]["discr"].get("copy") or t_["switch"]["discr"].get("move")
        if dpl is None or dpl["proj"]:
            continue
        cmp_ = None
        for s_ in b_["stmts"]:
            if "assign" in s_ and not s_["assign"][0]["proj"] and s_["assign"][0]["local"] == dpl["local"]:
                rv = s_["assign"][1]
                if isinstance(rv, dict) and "bin" in rv and rv["bin"][0] in ("Lt", "Gt", "Le", "Ge"):
                    cmp_ = rv["bin"]
        if cmp_ is None:
            continue
        op, x, y = cmp_
        targets = t_["switch"]["targets"]
        other = t_["switch"]["otherwise"]
        vals = {v for v, _tb in targets}
        edges = [(bool(v), tb) for v, tb in targets]
        if vals == {0}:
            edges.append((True, other))
        elif vals == {1}:
            edges.append((False, other))
        for truth, succ in edges:
            if not (succ == blk or cfg.dominates(succ, blk)) or cfg.pred[succ] != [d_] or ([tb for _v, tb in targets] + [other]).count(succ) != 1:
                continue
            # which strict inequality does this edge establish?
            lt = None
            if (op, truth) in (("Lt", True), ("Ge", False)):
                lt = (x, y)
            elif (op, truth) in (("Gt", True), ("Le", False)):
                lt = (y, x)
            if lt is None or _base_local(fn, lt[0]) != base:
                continue
            reg = _region(fn, succ, blk, d_)
            if _writes_local(fn, reg, base):
                continue
            out.append((d_, succ, lt[1]))
    return out


LEN_FNS = ("alloc::vec::Vec::<T, A>::len", "core::slice::<impl [T]>::len")
KEEP_LEN = re.compile(r"::(index_mut|index|get_mut|get|iter_mut|iter|as_mut_slice|as_slice|len|is_empty|first|last|first_mut|last_mut|swap|sort\w*|reverse|fill)$")


def guarded_index(fn, blk):
    """`v[i]` (Index / IndexMut on a Vec or slice) whose index was compared with `v.len()` on a dominating edge: i < v.len(), neither i nor
    the length of v changing between the comparison and the access"""
    t_ = fn["blocks"][blk]["term"] or {}
    if "call" not in t_ or len(t_["call"]["args"]) < 2:
        return False
    a0, a1 = t_["call"]["args"][0], t_["call"]["args"][1]
    base = _base_local(fn, a1)
    l0 = (a0.get("move") or a0.get("copy") or {}).get("local") if isinstance(a0, dict) else None
    if base is None or l0 is None:
        return False
    vec = ref_target_of(fn, l0)
    for d_, succ, bound in less_than_guards(fn, blk, base):
        bl = (bound.get("move") or bound.get("copy")) if isinstance(bound, dict) else None
        if bl is None or bl["proj"] or _assign_counts(fn).get(bl["local"], 0) != 1:
            continue
        # the bound is the result of len() on the same collection, taken right before the comparison
        src = None
        for bi, b_ in enumerate(fn["blocks"]):
            tt = b_["term"] or {}
            if "call" in tt and tt["call"]["dest"]["local"] == bl["local"] and not tt["call"]["dest"]["proj"]:
                src = (bi, tt["call"])
        if src is None or (src[1]["callee"].get("resolved") or src[1]["callee"].get("path")) not in LEN_FNS or src[1]["target"] != d_:
            continue
        la = src[1]["args"][0]
        ll = (la.get("move") or la.get("copy") or {}).get("local") if isinstance(la, dict) else None
        if ll is None or ref_target_of(fn, ll) != vec:
            continue
        # nothing between the comparison and the access may change the length of the collection
        okk = True
        for rb in _region(fn, succ, blk, d_):
            tt = fn["blocks"][rb]["term"] or {}
            if "call" in tt and rb != blk:
                for a_ in tt["call"]["args"]:
                    al = (a_.get("move") or a_.get("copy") or {}).get("local") if isinstance(a_, dict) else None
                    if al is not None and ref_target_of(fn, al) == vec and not KEEP_LEN.search(tt["call"]["callee"].get("resolved") or tt["call"]["callee"].get("path") or ""):
                        okk = False
        if okk:
            return True
    return False


def ref_target_of(fn, l_):
    from .clients import ref_target
    return ref_target(fn, l_)


def guarded_arith(fn, blk, kind, detail):
    """an unsigned `a - c` / `x % d` / `x / d` site that is provably fine because a branch on the way to it established a >= c (d >= 1)"""
    t_ = fn["blocks"][blk]["term"] or {}
    if kind != "assert" or "assert" not in t_:
        return False
    a_ = t_["assert"]
    d_ = a_.get("detail") or {}
    if a_.get("kind") == "Overflow" and d_.get("op") == "Sub" and re.search(r":(u\d+|usize)$", detail or ""):
        c_ = _const_int(d_.get("b"))
        root = _root_local(fn, d_.get("a"))
        if c_ is None or root is None:
            return False
        return lower_bound_from_guards(fn, blk, root) >= c_
    if a_.get("kind") == "Overflow" and d_.get("op") == "Add" and re.search(r":(u\d+|usize)$", detail or "") and _const_int(d_.get("b")) == 1:
        base = _base_local(fn, d_.get("a"))
        # a < X on a dominating edge (a unchanged since): a + 1 <= X fits the type
        return base is not None and bool(less_than_guards(fn, blk, base))
    m_ = re.search(r":(i)(\d+)$", detail or "")
    if a_.get("kind") == "Overflow" and d_.get("op") in ("Sub", "Add") and m_:
        ra, rb = _operand_range(fn, d_.get("a")), _operand_range(fn, d_.get("b"))
        if ra is None or rb is None:
            return False
        bits = int(m_.group(2))
        lo = ra[0] - rb[1] if d_["op"] == "Sub" else ra[0] + rb[0]
        hi = ra[1] - rb[0] if d_["op"] == "Sub" else ra[1] + rb[1]
        return -(1 << (bits - 1)) <= lo and hi <= (1 << (bits - 1)) - 1
    if a_.get("kind") in ("DivisionByZero", "RemainderByZero"):
        # assert(!(divisor == 0)): the divisor is the operand of the comparison that feeds the assert
        cpl = (a_.get("cond") or {}).get("move") or (a_.get("cond") or {}).get("copy")
        dv = None
        if cpl and not cpl["proj"]:
            for s_ in fn["blocks"][blk]["stmts"]:
                if "assign" in s_ and not s_["assign"][0]["proj"] and s_["assign"][0]["local"] == cpl["local"]:
                    rv = s_["assign"][1]
                    if isinstance(rv, dict) and "bin" in rv and rv["bin"][0] == "Eq" and _const_int(rv["bin"][2]) == 0:
                        dv = rv["bin"][1]
        root = _root_local(fn, dv) if dv else None
        if root is None:
            return False
        return lower_bound_from_guards(fn, blk, root) >= 1
    return False


# sites allowed by their shape wherever they sit: (shape name) -> (reason, number of such sites confirmed on the pinned tree)
SHAPE_ALLOW = {
    "rect-index": ("a collection of layout rectangles (Layout::split over a literal constraint list) indexed with a literal", None),
    "rect-coordinate-sum": ("sum of two u16 coordinates of a layout rectangle inside the u16 terminal area", None),
}


def ui_panic_rule(rep, prog):
    rid = rep.rule("R2", "every panic site reachable from the key/mouse handlers, the draw functions and the statistics update is allow-listed with a reason (anything else can crash the client on an operator action)")
    fns = reachable_fns(prog, UI_ROOTS, {"radar"})
    n = 0
    used = {}
    shape_used, shape_moved = {}, {}
    for path in sorted(fns):
        fn = prog.fns[path]
        for kind, detail, blk, sp in panic_sites(prog, fn):
            if is_external_macro(sp):
                continue
            n += 1
            key = (pub_fn(path), "%s:%s" % (kind, detail))
            rep.instance(rid, "%s|%s:%s|%s" % (pub_fn(path), kind, detail, site_where(sp)), sample={"fn": pub_fn(path), "site": "%s:%s" % (kind, detail), "at": site_where(sp), "allowed": ALLOW.get(key)} if n <= 3 else None)
            shape = None
            if rect_shape(fn, blk, kind, detail):
                shape = "rect-coordinate-sum" if detail.startswith("Overflow") else "rect-index"
                shape_used[shape] = shape_used.get(shape, 0) + 1
            if key in ALLOW:
                used[key] = used.get(key, 0) + 1
                continue
            if shape is not None:
                shape_moved[shape] = shape_moved.get(shape, 0) + 1
                continue
            if guarded_arith(fn, blk, kind, detail) or (kind == "call" and detail == "slice-index" and guarded_index(fn, blk)):
                rep.info("%s: %s %s at %s is discharged by a dominating comparison of the same value" % (pub_fn(path), kind, detail, site_where(sp)))
                continue
            rep.violation("R2", "%s:%s:%s" % (pub_fn(path), kind, detail), "%s: unguarded panic site %s %s at %s is reachable from an operator action / redraw" % (pub_fn(path), kind, detail, site_where(sp)), site=site_where(sp))
    # an allow-listed reason covers the sites counted when it was written, not later additions of the same kind in that function
    for key, cnt in sorted(used.items()):
        lim = ALLOW_COUNT.get(key, 1)
        if cnt > lim:
            rep.violation("R2", "%s:%s:more-sites" % key, "%s now has %d panic sites of kind %s; the allow-listed reason was confirmed for %d (\"%s\")" % (key[0], cnt, key[1], lim, ALLOW[key]))
    # sites of an allow-listed shape may move between functions (extraction of a helper), but their number may not grow
    for shape, cnt in sorted(shape_used.items()):
        lim = SHAPE_COUNT.get(shape, 0)
        rep.instance(rid, "shape|%s" % shape, sample={"shape": shape, "sites": cnt, "confirmed": lim, "outside_their_listed_function": shape_moved.get(shape, 0)})
        if cnt > lim:
            rep.violation("R2", "shape:%s:more-sites" % shape, "%d panic sites of shape '%s' (%s); %d were confirmed" % (cnt, shape, SHAPE_ALLOW[shape][0], lim))
    rep.extra["allow_list_use"] = {"%s|%s" % k: v for k, v in sorted(used.items())}
    rep.floor("UI functions scanned", 12, len(fns))
    rep.floor("UI panic sites inventoried", 10, n)


def cli_rule(rep, prog):
    rid = rep.rule("R3", "command-line value parsers have no panic site: invalid values are reported as errors")
    fns = [f for p, f in prog.fns.items() if f["crate"] == "radar" and f.get("impl") and f["impl"].get("trait_def") == "core::str::traits::FromStr"]
    cl = []
    for f in fns:
        cl.extend(reachable_fns(prog, [f["path"]], {"radar"}))
    n = 0
    for path in sorted(set(cl)):
        fn = prog.fns[path]
        for kind, detail, blk, sp in panic_sites(prog, fn):
            if is_external_macro(sp):
                continue
            n += 1
            rep.instance(rid, "%s|%s:%s" % (pub_fn(path), kind, detail))
            rep.violation("R3", "%s:%s:%s" % (pub_fn(path), kind, detail), "%s: the value parser can panic at %s (%s %s) instead of returning a usage error" % (pub_fn(path), site_where(sp), kind, detail), site=site_where(sp))
        rep.instance(rid, pub_fn(path), sample={"parser": pub_fn(path)})
    rep.floor("FromStr value parsers", 1, len(fns))


def view_only_rule(rep, prog):
    rid = rep.rule("R4", "the handlers and draw functions never reach a tracker mutator (action / prune / incr_messages) and only borrow the tracker immutably")
    fns = reachable_fns(prog, ["radar::handle_keyevent", "radar::handle_mouseevent", "radar::draw"], {"radar", "rsadsb_common"})
    bad = [p for p in fns if p in ("rsadsb_common::Airplanes::action", "rsadsb_common::Airplanes::prune", "rsadsb_common::Airplanes::incr_messages")]
    rep.instance(rid, "reach", sample={"functions_reachable": len(fns), "mutators_reached": bad})
    for b in bad:
        rep.violation("R4", "ui-reaches:%s" % b, "an operator action / redraw can reach %s: controls must only change the view" % b)
    for root in ("radar::handle_keyevent", "radar::handle_mouseevent", "radar::draw"):
        f = prog.fns.get(root)
        if f is None:
            rep.violation("R4", "anchor:%s" % root, "anchor missing: %s" % root)
            continue
        for i in range(1, f["arg_count"] + 1):
            ty = f["locals"][i]["ty"]
            if ty.get("k") == "ref" and ty.get("mut") and ty["to"].get("path") == "rsadsb_common::Airplanes":
                rep.violation("R4", "ui-mut-borrow:%s" % root, "%s takes the tracker by mutable reference" % root)
        rep.instance(rid, root)
    adt = prog.adts.get("rsadsb_common::Airplanes")
    rep.floor("functions reachable from the UI", 10, len(fns))


def run(rep, tier, replay=None):
    prog = facts.load("std")
    teardown_rule(rep, prog)
    quit_reason_rule(rep, prog)
    ui_panic_rule(rep, prog)
    cli_rule(rep, prog)
    view_only_rule(rep, prog)
    rep.assume("NOT decided: all event sequences x terminal sizes, crossterm/ratatui internals, the escape sequences actually emitted; `?` exits returning Err (terminal I/O failure) are outside the statement")
    rep.assume("Layout::split returns as many rectangles as constraints; Rect coordinates are bounded by the u16 terminal size")
    return rep.finish(
        "Structural skeleton only. R1: must-pass-through on radar::main's CFG from enable_raw_mode to every `_0 = Ok(())` return via disable_raw_mode, "
        "DisableMouseCapture and show_cursor. R2: inventory of every panic site (overflow asserts, bounds checks, slice/str indexing, unwrap/expect) reachable from the "
        "handlers, draw functions and statistics update; each must be allow-listed with a reason. R3: FromStr value parsers of the CLI have no panic site. R4: call-graph "
        "reachability from the UI to tracker mutators and mutability of the handlers' tracker parameter.")
