"""C09 - identity (squawk) codes decode to the right four octal digits in every carrier."""
from .. import facts, decode
from ..ai.values import AdtVal, Choice, IntVal, ZERO
from ..ref import tables as T
from .common import decode_paths, rng_str
from .c10 import aligned

ME_ADT = "adsb_deku::adsb::ME"


def expected_bits(start):
    """result bit index -> atom, for hex digits A B C D from the field starting at frame bit `start`"""
    pos = {n: start + i for i, n in enumerate(T.ID13_ORDER)}
    exp = {}
    for base, letter in ((12, "A"), (8, "B"), (4, "C"), (0, "D")):
        exp[base + 0] = pos[letter + "1"]
        exp[base + 1] = pos[letter + "2"]
        exp[base + 2] = pos[letter + "4"]
    return exp


def carriers_rule(rep, prog, oks):
    r1 = rep.rule("R1", "the 13-bit identity code is f[19..32) in DF5 and DF21 and f[43..56) in type-28 reports")
    r2 = rep.rule("R2", "each carrier's decoded value is the bit permutation C1 A1 C2 A2 C4 A4 X B1 D1 B2 D2 B4 D4 -> hex digits A B C D (each 0-7); carriers agree")
    seen = {}
    for p in oks:
        if "Capability::Reserved" in p.label:
            continue        # known mis-seek (C04 R1d), recorded there
        for l in p.leaves:
            key = None
            if p.variant == "SurveillanceIdentityReply" and "adsb_deku::IdentityCode" in l.adts:
                key, start = "DF5.id", 19
            elif p.variant == "CommBIdentityReply" and l.path[-1] == "id":
                key, start = "DF21.id", 19
            elif l.path[-1] == "squawk" and ME_ADT in l.adts and p.ids[0] == 17:
                key, start = "ME28.squawk", 43
            if key:
                # every grammar path of the carrier (the surrounding header fields select different paths), distinct results once
                from ..ai.values import fp
                sig = (key, l.atoms, fp(l.value))
                if sig not in seen:
                    seen[sig] = (key, l, start, p.label)
    for _sig, (key, l, start, plabel) in sorted(seen.items(), key=lambda kv: (kv[1][0], kv[1][3])):
        rep.instance(r1, key, sample={"carrier": key, "slice": rng_str(l.atoms)})
        want = frozenset(range(start, start + 13))
        # the X position (7th bit) carries no information; a decoder that never looks at it reads the same code
        if l.atoms != want and l.atoms != want - {start + 6}:
            rep.violation("R1", "%s:slice=%s" % (key, rng_str(l.atoms)), "%s reads the identity code from %s, expected %s" % (key, rng_str(l.atoms), rng_str(want)))
            continue
        v = l.value
        rep.instance(r2, key, sample={"carrier": key, "value": repr(v)[:160]})
        if not isinstance(v, IntVal) or v.bits is None:
            rep.violation("R2", "%s:inexact" % key, "%s: decoded identity is not an exact bit permutation: %r" % (key, v))
            continue
        exp = expected_bits(start)
        bad = []
        for k, e in enumerate(v.bits):
            want_e = (1 << exp[k], 0) if k in exp else ZERO
            if e != want_e:
                bad.append(k)
        if bad:
            from ..ai.values import bx_str
            k = bad[0]
            rep.violation("R2", "%s:permutation" % key,
                          "%s: result bit(s) %s differ from the Annex 10 permutation, e.g. bit %d is %s, expected %s" %
                          (key, bad[:6], k, bx_str(v.bits[k]), ("a%d" % exp[k]) if k in exp else "0"))
    rep.floor("identity carriers", 3, len(seen))


def enum_rule(rep, prog, oks):
    rid = rep.rule("R4", "type-28 subtype f[37..40) and emergency state f[40..43): every 3-bit value selects the variant with that discriminant (subtype: 0,1,2, else Reserved)")
    done = set()
    for p in oks:
        if not aligned(p) or p.ids[0] != 17 or "ME::AircraftStatus" not in p.label:
            continue
        for l in p.leaves:
            if l.path[-1] in ("sub_type", "emergency_state") and ME_ADT in l.adts and l.path[-1] not in done:
                done.add(l.path[-1])
                start = 37 if l.path[-1] == "sub_type" else 40
                m = {}
                if isinstance(l.value, Choice):
                    for d, v in l.value.alts:
                        for i in decode.id_values(tuple(d), range(start, start + 3)):
                            m.setdefault(i, set()).add(v.vname)
                rep.instance(rid, l.path[-1], sample={"field": l.path[-1], "map": {k: sorted(v) for k, v in m.items()}})
                if l.atoms != frozenset(range(start, start + 3)):
                    rep.violation("R4", "AircraftStatus.%s:slice" % l.path[-1], "%s reads %s, expected f[%d..%d)" % (l.path[-1], rng_str(l.atoms), start, start + 3))
                    continue
                if l.path[-1] == "emergency_state":
                    adt = prog.adts.get("adsb_deku::adsb::EmergencyState")
                    want = {v["discr"]: {v["name"]} for v in adt["variants"]} if adt else {}
                    if m != want or len(m) != 8:
                        rep.violation("R4", "EmergencyState:map", "emergency state map %s differs from the declared discriminants %s / does not cover 0-7" % (m, want))
                else:
                    want = {0: {"NoInformation"}, 1: {"EmergencyPriorityStatus"}, 2: {"ACASRaBroadcast"}}
                    for i in range(3, 8):
                        want[i] = {"Reserved"}
                    if m != want:
                        rep.violation("R4", "AircraftStatusType:map", "subtype map %s, expected %s" % (m, want))
    rep.floor("type-28 enum fields", 2, len(done))


def run(rep, tier, replay=None):
    prog = facts.load("std")
    run_, oks, errs = decode_paths(prog, 14)
    carriers_rule(rep, prog, oks)
    enum_rule(rep, prog, oks)
    from .common import enum_tables_rule
    enum_tables_rule(rep, prog, "R5", ["adsb_deku::adsb::EmergencyState", "adsb_deku::adsb::AircraftStatusType"],
                     "emergency state and type-28 subtype: each variant is selected by exactly the codes DO-260B assigns to that meaning")
    return rep.finish(
        "From the decode model (GF(2) bit provenance through the per-bit extraction of DF5 and through the shared de-interleaver used by DF21 and "
        "type 28): each carrier's slice and the exact result-bit -> frame-bit permutation are compared with the Annex 10 order; the three carriers are "
        "therefore equal to each other. R4: 3-bit enum fields of type 28 map every value to the declared variant.")
