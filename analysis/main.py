import argparse
import importlib
import os
import sys
import traceback

from . import facts
from .report import Report


def main():
    ap = argparse.ArgumentParser()
    ap.add_argument("pid")
    ap.add_argument("--tier", default=os.environ.get("VERIF_TIER", "quick"), choices=["quick", "thorough"])
    ap.add_argument("--replay", default=None)
    args = ap.parse_args()
    pid = args.pid.upper()
    seed = int(os.environ.get("VERIF_SEED", "0") or 0)
    try:
        mod = importlib.import_module("analysis.rules." + pid.lower())
    except ImportError as e:
        print("no check for %s: %s" % (pid, e))
        sys.exit(2)
    rep = Report(pid, args.tier, seed)
    if args.tier == "thorough" and not os.environ.get("VERIF_SELFTEST_CHILD"):
        from . import selftest
        st = selftest.run_selftest(pid)
        rep.extra["mutants_total"] = len(st)
        rep.extra["mutants_detected"] = sum(1 for x in st if x["status"] == "detected")
        rep.extra["mutants"] = st
        for x in st:
            if x["status"] != "detected" and x.get("expected_by_meta"):
                print("SELFTEST-MISS: property=%s seed=%s status=%s" % (pid, x["seed"], x["status"]))
    try:
        code = mod.run(rep, args.tier, args.replay)
    except facts.FactsError as e:
        print("FACTS ERROR (no verdict): %s" % e)
        sys.exit(2)
    except Exception:
        traceback.print_exc()
        print("INTERNAL ERROR in check %s (no verdict)" % pid)
        sys.exit(2)
    sys.exit(code)


if __name__ == "__main__":
    main()
