#!/usr/bin/env python3
"""Maintains known_findings.json (committed; never written by checks)."""
import json, sys, os
P = os.path.join(os.path.dirname(os.path.abspath(__file__)), "known_findings.json")
d = json.load(open(P))
cmd = sys.argv[1]
if cmd == "add":
    pid, key, what, inp = sys.argv[2:6]
    d["known"] = [e for e in d["known"] if e["key"] != key]
    d["known"].append({"property": pid, "key": key, "what": what, "failing_input": inp})
elif cmd == "fixed":
    pid, commit, what = sys.argv[2:5]
    line = "fixed: property=%s %s %s" % (pid, commit, what)
    if line not in d["fixed"]:
        d["fixed"].append(line)
elif cmd == "rm":
    d["known"] = [e for e in d["known"] if e["key"] != sys.argv[2]]
d["known"].sort(key=lambda e: e["key"])
json.dump(d, open(P, "w"), indent=1)
