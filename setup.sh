#!/bin/sh
# Offline setup after a fresh restore: build the driver, warm dependency target dirs, smoke-test.
set -e
cd "$(dirname "$0")"
export CARGO_NET_OFFLINE=true
(cd driver && cargo build --release --offline)
python3 - <<'PY'
import sys
sys.path.insert(0, '.')
from analysis import facts
for cfg in ("std", "alloc", "serde"):
    facts.load(cfg)
    print("extracted", cfg)
PY
