#!/bin/sh
# false-alarm test: apply a behaviour-preserving diff to a scratch copy of /repo (outside /repo and /verif), run every quick check
# against the copy with its own cache, report any alarm, remove the copy.   usage: tools_neutral.sh <diff> <name> [checks...]
diff=$1; name=$2; shift 2
V=$(cd "$(dirname "$0")" && pwd)
W=$(mktemp -d /tmp/neutral-XXXXXX)
mkdir -p "$W/repo"
# the committed tree (HEAD), not the working tree: seeded patches are applied to /repo's working tree only transiently
git -C /repo archive HEAD | tar -x -C "$W/repo"
( cd "$W/repo" && patch -p1 -s < "$diff" ) || { echo "$name: PATCH FAILED"; rm -rf "$W"; exit 2; }
export VERIF_REPO="$W/repo" VERIF_CACHE_DIR="$W/cache" VERIF_EVIDENCE_DIR="$W/evidence" VERIF_REPLAY_DIR="$W/replay" VERIF_SELFTEST_CHILD=1
checks=${*:-C01 C02 C03 C04 C05 C06 C07 C08 C09 C10 C11 C12 C13 C14 C15 C16 C17 C18 C19 C20}
cd "$V"
for c in $checks; do
  out=$(timeout 1500 ./check $c --tier quick 2>&1); code=$?
  if [ $code -ne 0 ]; then
    echo "$name: $c exit $code"
    echo "$out" | grep -E "^  rule |INTERNAL|Inconclusive|Error" | head -4 | cut -c1-400 | sed "s/^/    /"
  fi
done
echo "$name: done"
rm -rf "$W"
