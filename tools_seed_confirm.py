#!/usr/bin/env python3
"""Confirm a seeded change produced by a sub-agent in its scratch worktree, then store it under /verif/seeded/<name>/.
usage: tools_seed_confirm.py <worktree> <name> <property> <demo-file> <dest-in-tree> '<demo cmd>' '<needs>'
Steps (all inside the scratch worktree, never /repo):
  1. the change compiles and the pinned test suite passes with it;
  2. the demonstration fails with the change;
  3. the demonstration passes with the change reverted.
"""
import json, os, shutil, subprocess, sys
wt, name, prop, demo, dest, cmd, needs = sys.argv[1:8]
V = os.path.dirname(os.path.abspath(__file__))
env = dict(os.environ, CARGO_NET_OFFLINE="true", CARGO_TARGET_DIR=os.path.join(wt, "target"))


def sh(c, **kw):
    return subprocess.run(c, shell=True, cwd=wt, env=env, capture_output=True, text=True, **kw)


patch = os.path.join(wt, "_seed", "patch.diff")
# the sub-agent's patch.diff is the source of truth (git stash is shared between worktrees, so the tree itself may hold a foreign edit)
sh("git checkout -- .")
r0 = sh("git apply _seed/patch.diff")
assert r0.returncode == 0, "cannot apply patch: " + r0.stderr
cur = sh("git diff").stdout
open(os.path.join(wt, "_seed", "_cur.diff"), "w").write(cur)
log = {}
r = sh("cargo test --workspace --no-fail-fast --offline 2>&1 | grep -E '^test result|FAILED|error' ")
fails = [l for l in r.stdout.splitlines() if "FAILED" in l or l.startswith("error")]
tot = sum(int(l.split(" passed")[0].split()[-1]) for l in r.stdout.splitlines() if l.startswith("test result"))
log["suite_with_change"] = {"passed": tot, "failures": fails}
print("suite with change: passed", tot, "failures", fails)
dst = os.path.join(wt, dest)
os.makedirs(os.path.dirname(dst), exist_ok=True)
shutil.copy(os.path.join(wt, "_seed", demo), dst)
r1 = sh(cmd + " 2>&1 | tail -40")
rc1 = sh(cmd + " >/dev/null 2>&1").returncode
log["demo_with_change"] = {"exit": rc1, "tail": r1.stdout[-1500:]}
print("demo with change: exit", rc1)
assert sh("git apply -R _seed/_cur.diff").returncode == 0
r2 = sh(cmd + " 2>&1 | tail -15")
rc2 = sh(cmd + " >/dev/null 2>&1").returncode
log["demo_without_change"] = {"exit": rc2, "tail": r2.stdout[-800:]}
print("demo without change: exit", rc2)
os.remove(dst)
ok = tot >= 40 and not fails and rc1 != 0 and rc2 == 0
print("CONFIRMED" if ok else "NOT CONFIRMED")
if not ok:
    print(json.dumps(log, indent=1)[:4000])
    sys.exit(1)
d = os.path.join(V, "seeded", name)
os.makedirs(d, exist_ok=True)
open(os.path.join(d, "patch.diff"), "w").write(cur)
shutil.copy(os.path.join(wt, "_seed", demo), os.path.join(d, demo))
if os.path.exists(os.path.join(wt, "_seed", "notes.md")):
    shutil.copy(os.path.join(wt, "_seed", "notes.md"), os.path.join(d, "notes.md"))
meta = {"property": prop, "needs": needs, "demo": {"file": demo, "place_at": dest, "cmd": cmd},
        "confirmed": {"where": "scratch worktree (removed afterwards)", "suite": "cargo test --workspace --no-fail-fast --offline",
                      "suite_passed_with_change": tot, "demo_exit_with_change": rc1, "demo_exit_without_change": rc2,
                      "demo_output_with_change": r1.stdout[-900:]},
        "origin": "sub-agent given only the property text and a scratch worktree"}
json.dump(meta, open(os.path.join(d, "meta.json"), "w"), indent=1)
print("stored", d)
