#!/bin/sh
# evaluates every kept seed against its own property's quick check (applies to /repo, runs, undoes); prints one line per seed
cd "$(dirname "$0")"
for d in seeded/*/; do
  n=$(basename "$d"); [ -f "$d/meta.json" ] || continue
  out=$(timeout 1500 ./tools_seed.py eval "$n" "$@" 2>&1 | grep -E "exit|rule " | head -2 | cut -c1-200 | tr '\n' ' ')
  echo "$n: $out"
done
